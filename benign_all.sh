#!/bin/bash
# Regression over the behaviour-preserving changes in /verif/benign: each must pass the quick check of the property it
# was written for and C09 without a VIOLATION line (a line here = a false alarm to investigate).
cd /verif
for d in benign/*/; do id=$(basename $d); p=${id%%-*}; echo "=== $id"; ./benigncheck.sh /verif/$d $p C09 2>&1 | grep "^BENIGN"; done
