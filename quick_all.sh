#!/bin/bash
# Runs every quick check in sequence (rebuilding from /repo), prints one summary line and the wall time per check.
cd /verif
export GOFLAGS=-mod=mod GOPROXY=off GOSUMDB=off GOTOOLCHAIN=local
for c in ${@:-C01 C02 C03 C04 C05 C06 C07 C08 C09 C10 C11 C12 C13 C14 C15 C16 C17 C18 C19 C20}; do
  s=$(date +%s); out=$(timeout 3000 ./check $c quick 2>&1); rc=$?
  echo "$out" | grep -E "^(VIOLATION|ERROR|$c tier)" | cut -c1-260 | head -5
  echo "--- $c rc=$rc wall=$(( $(date +%s) - s ))s known=$(echo "$out" | grep -c '^KNOWN-FINDING')"
done
