#!/bin/bash
# seedcheck.sh <Cnn> <seed-dir> [tier]  — confirm a seeded change independently, then run our check against it.
# 1. fresh scratch worktree of /repo HEAD; apply patch; build; existing tests must pass; demo must fail
# 2. unpatched: demo must pass
# 3. ./check mutant <Cnn> <tier> with the patched files as overlay (no change to /repo)
set -u
P=$1; SD=$2; TIER=${3:-quick}
export GOFLAGS=-mod=mod GOPROXY=off GOSUMDB=off GOTOOLCHAIN=local
WT=/tmp/wt/verify_$$
git -C /repo worktree add -q --detach $WT HEAD || exit 2
cd $WT
res() { echo "SEEDCHECK $P $1"; }
DEMO=$(ls $SD/*_test.go 2>/dev/null | head -1)
if git apply $SD/patch.diff 2>/tmp/apply_$$.err; then res "patch applies"; else res "PATCH DOES NOT APPLY: $(cat /tmp/apply_$$.err | head -3)"; git -C /repo worktree remove --force $WT; exit 3; fi
if go build ./... 2>&1 | tail -3 | grep -q .; then res "BUILD FAILS"; else res "build ok"; fi
T=$(go test -vet=off -count=1 ./... 2>&1 | tail -3); if echo "$T" | grep -q "^ok"; then res "existing tests pass with change"; else res "EXISTING TESTS FAIL with change: $T"; fi
FILES=$(git diff --name-only)
if [ -n "$DEMO" ]; then
  cp $DEMO test/zz_seed_demo_test.go
  D=$(go test -vet=off -count=1 -run "$(grep -oE 'func (Test[A-Za-z0-9_]+)' $DEMO | awk '{print $2}' | paste -sd'|')" ./test/ 2>&1 | tail -4)
  if echo "$D" | grep -q "FAIL"; then res "demo fails with change (good)"; else res "DEMO DOES NOT FAIL with change: $D"; fi
fi
# keep patched copies for the overlay
mkdir -p /tmp/wt/patched_$$; PAIRS=""
for f in $FILES; do mkdir -p /tmp/wt/patched_$$/$(dirname $f); cp $f /tmp/wt/patched_$$/$f; PAIRS="$PAIRS /repo/$f=/tmp/wt/patched_$$/$f"; done
git checkout -q -- $FILES
if [ -n "$DEMO" ]; then
  D=$(go test -vet=off -count=1 -run "$(grep -oE 'func (Test[A-Za-z0-9_]+)' $DEMO | awk '{print $2}' | paste -sd'|')" ./test/ 2>&1 | tail -4)
  if echo "$D" | grep -q "^ok"; then res "demo passes without change (good)"; else res "DEMO DOES NOT PASS without change: $D"; fi
fi
cd /verif
git -C /repo worktree remove --force $WT
OUT=$(VERIF_MUT_DIR=/verif/.build/mut_seed_$$ timeout 3000 ./check mutant $P $TIER $PAIRS 2>&1)
echo "$OUT" | grep -E "^(VIOLATION|ERROR|$P tier)" | head -4
echo "$OUT" | grep -E "^  fp=" | head -3 | cut -c1-300
if echo "$OUT" | grep -q "^VIOLATION property=$P"; then res "CHECK DETECTS ($TIER)"; else res "CHECK MISSES ($TIER)"; fi
rm -rf /tmp/wt/patched_$$ /verif/.build/mut_seed_$$
