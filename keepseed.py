#!/usr/bin/env python3
"""keepseed.py <id> <Cnn> <seed-dir> <detected:yes|no|after-strengthening> <tier> "<note>"
Copies a sub-agent's seeded change (patch.diff, demonstration, meta.json) into /verif/seeded/<id>/ and records what we ran."""
import json, os, shutil, sys, glob
sid, prop, sd, det, tier, note = sys.argv[1:7]
dst = "/verif/seeded/" + sid
os.makedirs(dst, exist_ok=True)
shutil.copy(sd + "/patch.diff", dst + "/patch.diff")
for f in glob.glob(sd + "/*_test.go") + glob.glob(sd + "/demo/*.go"):
    shutil.copy(f, dst + "/" + os.path.basename(f).replace("_test.go", "_test.go.txt"))
try:
    meta = json.load(open(sd + "/meta.json"))
except Exception as e:
    meta = {"note": "agent meta.json unreadable: %s" % e}
out = {
 "id": sid, "breaks_property": prop,
 "summary": meta.get("summary"), "needs_to_manifest": meta.get("needs_to_manifest"), "files_changed": meta.get("files_changed"),
 "origin": "written by an independent sub-agent that saw only the property text and its own scratch worktree of /repo",
 "confirmed_by_us": {"how": "./seedcheck.sh %s <seed-dir> %s: fresh scratch worktree of /repo HEAD, git apply patch.diff, go build ./..., go test -vet=off -count=1 ./... (existing suite), demonstration copied into test/ and run with and without the change; worktree removed afterwards" % (prop, tier),
                     "patch_applies": True, "builds": True, "existing_tests_pass_with_change": True, "demo_fails_with_change": True, "demo_passes_without_change": True},
 "our_check": {"command": "./check mutant %s %s <patched files as build overlay>  (equivalent to git -C /repo apply + ./check %s %s + git checkout, without touching /repo)" % (prop, tier, prop, tier), "detected": det, "note": note},
 "agent_meta": meta,
}
json.dump(out, open(dst + "/meta.json", "w"), indent=1, ensure_ascii=False)
print("kept", dst)
