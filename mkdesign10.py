#!/usr/bin/env python3
# Regenerates section 10 of DESIGN.md from /verif/seeded/*/meta.json and selftest.json.
import json,glob,collections
rows=[]
for d in sorted(glob.glob('/verif/seeded/*')):
    m=json.load(open(d+'/meta.json'))
    rows.append((m['id'],m['breaks_property'],(m.get('summary') or '').replace('|','/').replace('\n',' ')[:230],m['our_check']['detected'],m['our_check']['note'].replace('|','/')))
st=json.load(open('/verif/selftest.json'))['mutants']
cnt=collections.Counter(m['status'] for m in st)
n=len(rows); missed=[r for r in rows if r[3]!='yes']
sec='''
---------------------------------------------------------------------------------------------

## 10. Detection record: which checks catch which changes

### 10.1 Independently seeded changes (`/verif/seeded/<id>/`)

Each was written by a fresh sub-agent that saw only the text of one property and its own scratch worktree
of `/repo` (nothing from `/verif`); second-round agents were additionally given the one-sentence summary of the
first-round change for their property and asked for a change of a different kind; from round 12 on they got the short names of all earlier changes for their property. Each compiles, passes the
repository's 237 tests, and comes with a demonstration that fails with the change and passes without it; all of
that was re-confirmed by `./seedcheck.sh` in a fresh scratch worktree (removed afterwards) before the change was
kept. The check was then run against the change through the build overlay (`./check mutant …`, equivalent to
`git -C /repo apply` + `./check` + `git checkout`, but `/repo` is never modified). Tier used: quick.

**%d seeded changes kept; %d detected by the quick check as it stood, %d missed at first and detected after the
check was strengthened (each described below).**

| seeded change | property | what it does | detected | by what (fingerprint / remark) |
|---|---|---|---|---|
''' % (n, n-len(missed), len(missed))
for r in rows:
    sec+='| `%s` | %s | %s | %s | %s |\n' % r
sec+='\nWhat the misses taught — each bullet is a seeded change the quick check missed when it was first tried, with what was changed; all are now caught on every run:\n\n'
for r in rows:
    if r[3]!='yes':
        sec+='* `%s` (%s) — %s\n' % (r[0], r[1], r[4])
sec+='''
Three of these lessons are general and worth stating once:

* **History dependence hides from ordered sweeps.** Every date sweep converts civil→lunar first and walks the
  years in ascending order, so the one-slot cache always holds "the right" year. Three independent seeds
  exploited exactly that (a constructor or table build that peeks at whatever neighbouring table is cached, made
  visible by the year-18/19 table disagreement that is itself a known finding). C09 now primes the cache with
  Y−1, Y+1 and Y+2 before the same calls for every year of the year set.
* **A harness reset hook is itself a history.** The first `Fix` search reset the holiday table through the
  `VerifReset` hook between histories. A library-internal lookup memo survives that reset, which made the search
  *detect* a stale-memo seed for the wrong reason and would have raised a false alarm on a correct memo that is
  invalidated inside `Fix`. Every `Fix` history now runs in its own fresh process, observing all views before the
  first fix-up and after each one.
* **Sampling by nature stays sampling.** The free-running race pass found a first-access race in 1 of 3 runs. The
  deciding check for "read-only accessors of a shared object do not race" is now deterministic: the accessor-purity
  check (deep snapshot of the private state before/after every exported zero-argument method of 26 object types;
  a write with no lock operation during the call is an unsynchronised write). A write accompanied by lock
  operations (a correct `sync.Once` memo) is not judged there — verified with two benign refactors (a
  double-checked RWMutex map cache in `NewLunarYear`, a `sync.Once` memo in `GetMonthsInYear`): no alarm.

A further lesson came from a selftest mutant rather than a seed: a library panic that escaped a check's own `try`
wrappers killed the worker (exit 2, "ERROR") instead of producing a verdict. Workers now convert an uncaught
panic whose stack passes through library code into a violation of the property under check
(`<id>:uncaught-panic:<site>`); a panic with no library frame stays a harness error.

Rounds 5 and 6 (40 changes, asked for "the subtlest change you can think of" along named dimensions: how the
object was obtained, option combinations, a particular second, range edges, helper functions, sibling accessors,
argument values, rare calendar configurations, table entries, negative intermediates) were caught as-is in 31
cases; 7 led to the machinery listed at the end of section 0.1. The common cause of every miss was again a
dimension of the input space that the harness held constant: the constructor used, the sub-second part of a
`time.Time`, pairs of moments less than a minute apart, the length argument of the `...By(n)` lists, a second
entry point to the same table (`NewLunarMonthFromYm`), two charts evaluated back to back in one process, a lookup
that misses. One of them (a mutex leaked on a lookup miss) also exposed two defects of the machinery itself, see
section 7. Two changes were judged not to break the property as stated (they need the caller to modify a
container returned by the library; `seeded_out_of_scope/README.md`).

Round 7 (20 changes; the agents were told that the harness sweeps every day with the obvious constructors at a
dozen times of day under all option values, and to think about what it holds constant) was the most productive:
only 1 of the 18 distinct changes was caught as-is (two were duplicates of earlier seeds or of each other). The
single cause: every check asked its questions of *freshly constructed* objects, so anything wrong only on an object
reached by navigation (`Next(n)` results, list items, objects asked something before being stepped, chains of
steps), through a second entry point (exported fortune constructors), or at a magnitude outside the step alphabets
(whole 400-year cycles, 23,000 months) was invisible. Section 0.1 ("Round 7") lists what was added; after it all
18 are detected, and all 101 earlier seeds still are.

Round 8 (20 changes; the agents were given a description of everything the harness does by then and asked what it
could still be holding constant) produced mostly *process-level* faults: eight bounded caches of 64 to 16,384 year
tables whose eviction path is wrong (stale index entries, recycled objects, slices handed over), a direct-mapped
week-index cache with a truncated tag, a term table shared by year mod 128, a festival index sized by the first
caller of the process, a memo whose key collides with the "not found" sentinel of an unrecognised name, a one-entry
memo with a packed key, an accessor that filters the cached year table in place, a stringer that overwrites an
exported table, a dependence on the process time zone, plus three ordinary gaps (base-year residues, an append
fast path in `Fix`, the chart convention leaking into the fortune start). 3 were caught as-is or by what had just been
added; the others led to the long-history, jump, first-use and junk shards of C09, the `pairs` shard of C04, the
time-zone rotation of the workers and the smaller additions listed in section 0.1 ("Round 8"). The cache faults do
violate the property they were written for, but only in a process that has computed thousands of distinct years,
which no year-sharded sweep does; they are detected by C09 (whose statement — results do not depend on call
history — they violate first), and `seeds_all.sh` records that mapping.

Round 9 (20 changes; the agents were told everything above and that caches are covered, and asked for faults in the
rule or arithmetic itself, loosely constrained values, weak oracles and rare interactions): 4 caught as-is, 14 after
the additions listed in section 0.1 ("Round 9"), and 2 that the machinery cannot decide because they change the
astronomy by less than the independent oracle resolves (`seeded_undecided/README.md`). Typical causes of the misses:
an oracle weaker than the text (a full string checked for shape, term names for non-emptiness), an argument or range
end one past what the alphabet contained (120,001 months, year 9999, 63 month-separated steps), a moment inside the
minute of a term, a rounding tie that exists on four days of the whole range, special `time.Time` values, and the
process time zone.

Round 10 (20 changes, same brief extended by round 9's additions; several agents reported that they could no longer
find a fault a full sweep would miss and fell back on date-level changes): 12 caught as-is (six of them by machinery
added in rounds 6–9), 6 after additions — the classical nine-star correspondences pinned in C16, `HH:MM:SS` strings
for the slot helper, setter isolation for returned value objects, read-only methods with small int arguments in the
race pass, `time.Time` inputs in named zones whose clock changes at local midnight, Julian Days in the last half
second of every month and year — one undecidable (a new moon 81 s from local midnight) and one judged out of scope
(needs a name table shorter than the built-in one, under which the unchanged library cannot name its own records).

Rounds 12–15 (80 changes in four batches of twenty, written by fresh agents that were given only the property text,
the short names of the changes already taken for it and a preferred flavour — two cooperating sites, a multi-step
sequence on one object, an unusual input, package-level state, a less-travelled entry point, a data-table entry, a
secondary object type, an edge of the range): 60 were caught as they stood — by the quick check of their property or, for
the concurrency-only changes and two others, by C09 or C11 — and 20 led to the additions listed in
section 0.1 ("Rounds 12–15"). What the misses had in common this time was not a dimension of the *input* space but of
the *object's past*: the check read its answer from an object nobody had asked anything before (term table rewritten by
`GetShuJiu`/`GetFu`, lookup memo keyed too coarsely, back-pointer surviving `NextHour`), or through one of two entry
points (`NewSolarFromDate`, month objects handed out by a neighbouring year's list, aliases under the non-default
convention), or judged a rendering with a parser more forgiving than the text (empty year digits, hour 24). One
comparison added for a seeded change (month objects by route) fired on the unchanged tree; it is a genuine
inconsistency of the pinned library and is recorded as a known finding (section 6, row 23), with a class fingerprint
narrow enough that the seeded change, which breaks the same accessor in every year, is still reported.

### 10.1b Behaviour-preserving changes (`/verif/benign/`, `benign_all.sh`)

Round 11 turned the exercise around: twenty sub-agents each wrote a realistic, non-trivial change that *preserves*
its property — correctly keyed and locked memo tables and LRU caches for year tables and almanac lookups, closed-form
day counts replacing loops (negative years and the 1582 gap included), integer comparisons replacing formatted-string
comparisons (with the string path kept where the two orders differ), binary searches over the sorted tables,
slice-backed month tables behind freshly built lists, helper extraction, `sync.Once` tables, new correct exported
helpers — and proved it with a record/compare differential test over a broad sweep against the unchanged library.
Each patch was run (through the build overlay) against the quick check of its property and against C09: **none of the
twenty raised a VIOLATION line**; the existing tests pass with all of them. They are kept as a regression set for
"no alarm on code where the property holds" next to the seeded faults. (Two of them deliberately change what a caller
sees after modifying a container returned by the library, or on zero-value objects; neither is observed by any check.)

### 10.2 Hand-written overlay mutants (`selftest.py`, results in `selftest.json`)

%d mutants (1–3 per property, listed with their intent in `selftest.py`) are applied through the build
overlay; for each, the repository's tests are run against the mutant and the property's quick check must
print a `VIOLATION` line. Result on the committed tree: **%d/%d detected**; %d of them also pass the
repository's own tests (the interesting ones), %d are caught by those tests as well. Mutants that turned out
to be equivalent were replaced and are named in `selftest.py`'s notes (`QiAccurate2` threshold 5→25: |a−jd|
never exceeds 4.95; `LunarMonth.Next` `rest < more`→`<=` and `rest <= index`→`<`: adjacent tables overlap, so
the walk lands on the same month through the other table; `IsLeapYear` `year < 1600`→`1700`: no century year
in between).

### 10.3 What the thorough tier adds

The quick tier is a strict subset of the thorough tier's states. Seeds/mutants whose failing inputs lie
outside the quick year set (a single rare year, e.g. a dropped `LEAP_12` entry) are caught by: C06 and C02
(all tables in both tiers), C01's light pass over all days, C20 (all days in both tiers) — otherwise by the
thorough tier (all 3,651,696 days).
''' % (len(st), cnt['detected']+cnt['detected-but-tests-also-fail'], len(st), cnt['detected'], cnt['detected-but-tests-also-fail'])
p='/verif/DESIGN.md'; s=open(p).read()
mark='\n---------------------------------------------------------------------------------------------\n\n## 10. Detection record'
if mark in s: s=s[:s.index(mark)]
open(p,'w').write(s.rstrip('\n')+'\n'+sec)
print(n,len(missed),len(st),cnt)
