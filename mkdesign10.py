#!/usr/bin/env python3
# Regenerates section 10 of DESIGN.md from /verif/seeded/*/meta.json and selftest.json.
import json,glob,collections
rows=[]
for d in sorted(glob.glob('/verif/seeded/*')):
    m=json.load(open(d+'/meta.json'))
    rows.append((m['id'],m['breaks_property'],(m.get('summary') or '').replace('|','/').replace('\n',' ')[:230],m['our_check']['detected'],m['our_check']['note'].replace('|','/')))
st=json.load(open('/verif/selftest.json'))['mutants']
cnt=collections.Counter(m['status'] for m in st)
n=len(rows); missed=[r for r in rows if r[3]!='yes']
sec='''
---------------------------------------------------------------------------------------------

## 10. Detection record: which checks catch which changes

### 10.1 Independently seeded changes (`/verif/seeded/<id>/`)

Each was written by a fresh sub-agent that saw only the text of one property and its own scratch worktree
of `/repo` (nothing from `/verif`); second-round agents were additionally given the one-sentence summary of the
first-round change for their property and asked for a change of a different kind. Each compiles, passes the
repository's 237 tests, and comes with a demonstration that fails with the change and passes without it; all of
that was re-confirmed by `./seedcheck.sh` in a fresh scratch worktree (removed afterwards) before the change was
kept. The check was then run against the change through the build overlay (`./check mutant …`, equivalent to
`git -C /repo apply` + `./check` + `git checkout`, but `/repo` is never modified). Tier used: quick.

**%d seeded changes kept; %d detected by the quick check as it stood, %d missed at first and detected after the
check was strengthened (each described below).**

| seeded change | property | what it does | detected | by what (fingerprint / remark) |
|---|---|---|---|---|
''' % (n, n-len(missed), len(missed))
for r in rows:
    sec+='| `%s` | %s | %s | %s | %s |\n' % r
sec+='''
What the misses taught (all four now caught on every run):

* `C14-fix-first-index-unaligned` — the `Fix` alphabet contained no fix-up aimed at a day whose date also
  occurs *earlier* in the table as the target field of make-up-day records, so the unaligned first `strings.Index`
  hit never happened. Four such calls were added (replace/remove 2002-01-01, remove 2006-05-01, replace 2014-10-04).
* `C14-workday-table-cached-per-year` — workday stepping was only checked on the pristine table. Each `Fix`
  shard (a fresh process per first operation, so no harness reset is involved) now performs walk → `Fix` → walk
  around the affected days and compares with the record set as it is after the fix-up.
* `C08-xiaoyun-negative-index` — the object walk visited annual/minor fortunes of the first two great periods
  only; the panic needs a late period of a backward chart. Every period now contributes its first, last and a
  rotating entry (every third later period per state, rotating with the day number).
* `C09-lazy-monthsinyear-memo` — a read-only accessor of a shared `LunarYear` memoising into an unsynchronised
  field. No scenario called that accessor on a shared object, and once one did, the free-running race pass saw the
  first-access race in only 1 of 3 runs (it is sampling by nature — which is why it was never meant to be the
  deciding step). Added a **deterministic accessor-purity check** inside C09: for 26 object types and every
  exported zero-argument method, a deep snapshot of the object's private state (reflection over unexported fields,
  depth 4) is taken before and after the call on a fresh instance under the scheduler; a change with *no lock
  operation during the call* is an unsynchronised write by a read-only accessor, i.e. a data race as soon as two
  goroutines share the object. A write accompanied by lock operations (a properly synchronised memo, `sync.Once`)
  is not judged there and is left to the race pass, so a correct memo cannot raise an alarm. The race pass also
  gained shared-accessor sweeps (8 goroutines, rotated method order, fresh instance per repetition).

A fifth lesson came from a selftest mutant rather than a seed: a library panic that escaped a check's own `try`
wrappers killed the worker (exit 2, "ERROR") instead of producing a verdict. Workers now convert an uncaught
panic whose stack passes through library code into a violation of the property under check
(`<id>:uncaught-panic:<site>`); a panic with no library frame stays a harness error.

### 10.2 Hand-written overlay mutants (`selftest.py`, results in `selftest.json`)

%d mutants (1–3 per property, listed with their intent in `selftest.py`) are applied through the build
overlay; for each, the repository's tests are run against the mutant and the property's quick check must
print a `VIOLATION` line. Result on the committed tree: **%d/%d detected**; %d of them also pass the
repository's own tests (the interesting ones), %d are caught by those tests as well. Mutants that turned out
to be equivalent were replaced and are named in `selftest.py`'s notes (`QiAccurate2` threshold 5→25: |a−jd|
never exceeds 4.95; `LunarMonth.Next` `rest < more`→`<=` and `rest <= index`→`<`: adjacent tables overlap, so
the walk lands on the same month through the other table; `IsLeapYear` `year < 1600`→`1700`: no century year
in between).

### 10.3 What the thorough tier adds

The quick tier is a strict subset of the thorough tier's states. Seeds/mutants whose failing inputs lie
outside the quick year set (a single rare year, e.g. a dropped `LEAP_12` entry) are caught by: C06 and C02
(all tables in both tiers), C01's light pass over all days, C20 (all days in both tiers) — otherwise by the
thorough tier (all 3,651,696 days).
''' % (len(st), cnt['detected']+cnt['detected-but-tests-also-fail'], len(st), cnt['detected'], cnt['detected-but-tests-also-fail'])
p='/verif/DESIGN.md'; s=open(p).read()
mark='\n---------------------------------------------------------------------------------------------\n\n## 10. Detection record'
if mark in s: s=s[:s.index(mark)]
open(p,'w').write(s.rstrip('\n')+'\n'+sec)
print(n,len(missed),len(st),cnt)
