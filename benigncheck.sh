#!/bin/bash
# benigncheck.sh <seed-dir> <Cnn>...  — a behaviour-preserving change (patch.diff) must pass: existing tests, and the
# named quick checks with NO violation line (KNOWN-FINDING lines are fine). /repo is untouched (build overlay).
set -u
SD=$1; shift
export GOFLAGS=-mod=mod GOPROXY=off GOSUMDB=off GOTOOLCHAIN=local
WT=/tmp/wt/benign_$$
git -C /repo worktree add -q --detach $WT HEAD || exit 2
cd $WT
if ! git apply $SD/patch.diff 2>/tmp/apply_$$.err; then echo "BENIGN PATCH DOES NOT APPLY: $(head -2 /tmp/apply_$$.err)"; git -C /repo worktree remove --force $WT; exit 3; fi
T=$(go test -vet=off -count=1 ./... 2>&1 | tail -3); echo "$T" | grep -q "^ok" && echo "BENIGN existing tests pass" || echo "BENIGN EXISTING TESTS FAIL: $T"
FILES=$(git diff --name-only; git ls-files --others --exclude-standard | grep '\.go$' | grep -v '^seed/' | grep -v '^test/')
mkdir -p /tmp/wt/bpatched_$$; PAIRS=""
for f in $FILES; do mkdir -p /tmp/wt/bpatched_$$/$(dirname $f); cp $f /tmp/wt/bpatched_$$/$f; PAIRS="$PAIRS /repo/$f=/tmp/wt/bpatched_$$/$f"; done
cd /verif; git -C /repo worktree remove --force $WT
for P in "$@"; do
  OUT=$(VERIF_MUT_DIR=/verif/.build/mut_benign_$$ timeout 3000 ./check mutant $P quick $PAIRS 2>&1)
  echo "$OUT" | grep -E "^(ERROR|$P tier)" | cut -c1-200 | head -2
  if echo "$OUT" | grep -q "^VIOLATION"; then echo "BENIGN $P FALSE ALARM:"; echo "$OUT" | grep -E "^  fp=" | head -4 | cut -c1-400; else echo "BENIGN $P no alarm"; fi
done
rm -rf /tmp/wt/bpatched_$$ /verif/.build/mut_benign_$$
