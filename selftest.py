#!/usr/bin/env python3
"""Demonstrated detection: apply hand-written property-breaking changes through the build overlay
(/repo is never touched), confirm the repository's own tests still pass, and require the property's
quick check to exit 1 with a VIOLATION line. Results -> /verif/selftest.json.
Usage: python3 selftest.py [Cnn ...]   (no args = all)"""
import json, os, subprocess, sys, time, re

V = "/verif"
ENV = dict(os.environ, GOFLAGS="-mod=mod", GOPROXY="off", GOSUMDB="off", GOTOOLCHAIN="local", GOCACHE=V + "/.build/gocache")

# (property, name, file, old, new, note)
M = [
 ("C01", "month-search-inclusive", "calendar/Lunar.go", "if days < m.GetDayCount() {", "if days <= m.GetDayCount() {", "last day of a month maps to day N+1 of the same month"),
 ("C01", "no-reanchor", "calendar/Lunar.go", "\tif noon.GetYear() != lunarYear {\n\t\ty = NewLunarYear(noon.GetYear())\n\t}\n", "", "term table of the wrong civil year for lunar dates whose lunar year differs from the civil year"),
 ("C02", "drop-leap11-2033", "calendar/LunarYear.go", "1642, 2033, 2128", "1642, 2128", "2033 loses its explicit leap-11"),
 ("C02", "leap-search-strict", "calendar/LunarYear.go", "if hs[i+1] <= jq[2*i] {", "if hs[i+1] < jq[2*i] {", "month starting on its major-term day"),
 ("C03", "next-term-inclusive", "calendar/Lunar.go", "\t\t\tif strings.Compare(day, today) <= 0 {\n\t\t\t\tcontinue\n\t\t\t}", "\t\t\tif strings.Compare(day, today) < 0 {\n\t\t\t\tcontinue\n\t\t\t}", "next term returns the term at the query instant itself"),
 ("C03", "one-third", "ShouXingUtil/ShouXingUtil.go", "const ONE_THIRD = float64(1) / 3", "const ONE_THIRD = 0.3", "time zone shift 7.2 h instead of 8 h"),
 ("C03", "qiaccurate2-threshold", "ShouXingUtil/ShouXingUtil.go", "\tif a-jd > 5 {\n\t\treturn QiAccurate(w - d)\n\t}\n\tif a-jd < -5 {", "\tif a-jd > 4 {\n\t\treturn QiAccurate(w - d)\n\t}\n\tif a-jd < -4 {", "estimate more than 4 days off jumps to the next term (years 57..444 only); 5 -> 25 is an equivalent mutant: |a-jd| never exceeds 4.95"),
 ("C04", "gregorian-switch-constant", "SolarUtil/SolarUtil.go", ">= 588829 {", ">= 588830 {", "1582-10-15 treated as Julian"),
 ("C04", "nextday-negative-boundary", "calendar/Solar.go", "for d+days <= 0 {", "for d+days < 0 {", "stepping back exactly to day 0"),
 ("C04", "leap-rule-1700", "SolarUtil/SolarUtil.go", "if year < 1600 {", "if year < 1800 {", "1700 treated as a leap year"),
 ("C04", "subtractminute-no-borrow", "calendar/Solar.go", "\t\tm += 1440\n\t\tdays--\n", "\t\tm += 1440\n", "minute difference off by a day when the time of day is earlier"),
 ("C05", "day-pillar-offset", "calendar/Lunar.go", "offset := int(noon.GetJulianDay() - 11)", "offset := int(noon.GetJulianDay() - 10)", "day pillar shifted by one"),
 ("C05", "late-rat-from-2259", "calendar/Lunar.go", 'strings.Compare(hm, "23:00") >= 0', 'strings.Compare(hm, "22:59") >= 0', "22:59 already counted as next day"),
 ("C05", "month-boundary-exclusive", "calendar/Lunar.go", "if strings.Compare(ymdhms, stime) >= 0 && strings.Compare(ymdhms, end.ToYmdHms()) < 0 {", "if strings.Compare(ymdhms, stime) > 0 && strings.Compare(ymdhms, end.ToYmdHms()) < 0 {", "exact month pillar wrong at the Jie instant itself"),
 ("C06", "next-more-overcount", "calendar/LunarMonth.go", "more := size - index - 1", "more := size - index", "forward month walk crossing a table end loses one step ('rest < more -> <=' and 'rest <= index -> <' are equivalent mutants because adjacent tables overlap)"),
 ("C06", "leap12-drop-3358", "calendar/LunarYear.go", "1574, 3358, 3472", "1574, 3472", "year 3358 loses its explicit leap-12"),
 ("C07", "gap-upper-bound", "calendar/Solar.go", "\t\tif day > 4 && day < 15 {\n\t\t\tpanic(fmt.Sprintf(\"wrong solar year %v month %v day %v\", year, month, day))", "\t\tif day > 4 && day < 14 {\n\t\t\tpanic(fmt.Sprintf(\"wrong solar year %v month %v day %v\", year, month, day))", "1582-10-14 accepted"),
 ("C07", "lunar-day-inclusive", "calendar/Lunar.go", "if lunarDay > days {", "if lunarDay > days+1 {", "day 30 accepted in a 29-day month"),
 ("C07", "nextyear-no-gap-shift", "calendar/Solar.go", "\tif 1582 == y && 10 == m {\n\t\tif d > 4 && d < 15 {\n\t\t\td += 10\n\t\t}\n\t} else if 2 == m {", "\tif 2 == m {", "NextYear into 1582-10-05..14 panics"),
 ("C08", "dayun-xun-guard", "calendar/DaYun.go", "func (daYun *DaYun) GetXun() string {\n\tif daYun.index < 1 {\n\t\treturn \"\"\n\t}\n", "func (daYun *DaYun) GetXun() string {\n", "period 0 panics again"),
 ("C08", "liuyao-index", "calendar/Lunar.go", "return LunarUtil.LIU_YAO[(month+lunar.day-2)%6]", "return LunarUtil.LIU_YAO[(month+lunar.day-1)%7]", "index 6 out of range for some month/day"),
 ("C09", "publish-before-compute", "calendar/LunarYear.go", "\t\tyear.compute()\n\t\tCACHE_YEAR = year\n\t} else {", "\t\tCACHE_YEAR = year\n\t\tlock.Unlock()\n\t\tyear.compute()\n\t\treturn year\n\t} else {", "second caller sees a half-built table"),
 ("C09", "panic-inside-lock", "calendar/LunarYear.go", "\tlock.Lock()\n\tvar year *LunarYear\n", "\tlock.Lock()\n\tvar year *LunarYear\n\tif lunarYear == 237 {\n\t\tpanic(\"unsupported lunar year\")\n\t}\n", "a recovered panic leaves the package lock held"),
 ("C09", "lazy-eightchar", "calendar/Lunar.go", "\tlunar.eightChar = NewEightChar(lunar)\n}", "}", "GetEightChar writes lazily again: data race"),
 ("C10", "late-rat-hour-dropped", "calendar/Solar.go", "hours = []int{0, 23}", "hours = []int{0}", "23:xx moments never returned under convention 2"),
 ("C10", "end-year-exclusive", "calendar/Solar.go", "for y <= endYear {", "for y < endYear {", "moments of the current year not returned"),
 ("C11", "lunartime-tianshen-day-branch", "calendar/LunarTime.go", "ZHI_TIAN_SHEN_OFFSET[lunarTime.lunar.GetDayZhiExact()]", "ZHI_TIAN_SHEN_OFFSET[lunarTime.lunar.GetDayZhi()]", "hour spirit differs between the two routes at 23:xx"),
 ("C11", "alias-wrong-target", "calendar/Lunar.go", "func (lunar *Lunar) GetChongGanTie() string {\n\treturn lunar.GetDayChongGanTie()", "func (lunar *Lunar) GetChongGanTie() string {\n\treturn lunar.GetDayChongGan()", "deprecated alias points at another accessor"),
 ("C12", "direction-female", "calendar/Yun.go", "yun.forward = (yang && man) || (!yang && !man)", "yun.forward = (yang && man) || (yang && !man)", "direction wrong for females"),
 ("C12", "period-start-shift", "calendar/DaYun.go", "add := (index - 1) * 10", "add := index * 10", "great periods start ten years late"),
 ("C13", "shujiu-80", "calendar/Lunar.go", "end := start.NextDay(81)", "end := start.NextDay(80)", "last day of the nine-nines missing"),
 ("C13", "wuhou-cap", "calendar/Lunar.go", "\tif index > 2 {\n\t\tindex = 2\n\t}\n\treturn LunarUtil.WU_HOU", "\tif index > 3 {\n\t\tindex = 3\n\t}\n\treturn LunarUtil.WU_HOU", "16th day of a term takes the next term's first phenology"),
 ("C13", "fu-geng-offset", "calendar/Lunar.go", "\tadd := 6 - xiaZhi.GetLunar().GetDayGanIndex()\n\tif add < 0 {", "\tadd := 6 - xiaZhi.GetLunar().GetDayGanIndex()\n\tif add <= 0 {", "solstice on a geng day starts the dog days 10 days late"),
 ("C14", "salary-third-day", "calendar/Solar.go", "lunar.GetMonth() == 1 && lunar.GetDay() >= 1 && lunar.GetDay() <= 3", "lunar.GetMonth() == 1 && lunar.GetDay() >= 1 && lunar.GetDay() < 3", "third day of lunar new year pays 2"),
 ("C14", "fix-remove-prefix", "HolidayUtil/HolidayUtil.go", "dataInUse = strings.Replace(dataInUse, old, \"\", -1)", "dataInUse = strings.Replace(dataInUse, old[8:], \"\", -1)", "removing one record deletes fragments of others"),
 ("C14", "workday-walk-weekend", "calendar/Solar.go", "if 0 == week || 6 == week {\n\t\t\t\t\twork = false", "if 0 == week {\n\t\t\t\t\twork = false", "Saturdays count as working days"),
 ("C15", "index-in-year-wrap", "calendar/SolarWeek.go", "\toffset := NewSolarFromYmd(solarWeek.year, 1, 1).GetWeek() - solarWeek.start\n\tif offset < 0 {\n\t\toffset += 7\n\t}", "\toffset := NewSolarFromYmd(solarWeek.year, 1, 1).GetWeek() - solarWeek.start\n\tif offset < 0 {\n\t\toffset += 6\n\t}", "week-of-year index wrong for late week starts"),
 ("C15", "month-next-negative", "calendar/SolarMonth.go", "\t} else if m < 1 {\n\t\tm += 12\n\t\ty--", "\t} else if m < 0 {\n\t\tm += 12\n\t\ty--", "month 0 produced when stepping back to December"),
 ("C16", "hour-star-start", "calendar/Lunar.go", "\tstart := 2\n\tif asc {\n\t\tstart = 6\n\t}", "\tstart := 2\n\tif asc {\n\t\tstart = 7\n\t}", "hour star of yin-shen-si-hai days in the ascending half"),
 ("C16", "year-star-yuan", "calendar/LunarYear.go", "offset := (62 + yuan*3 - index) % 9\n\tif 0 == offset {\n\t\toffset = 9\n\t}\n\treturn NewNineStar(offset - 1)\n}\n\nfunc (lunarYear *LunarYear) GetPositionXi", "offset := (63 + yuan*3 - index) % 9\n\tif 0 == offset {\n\t\toffset = 9\n\t}\n\treturn NewNineStar(offset - 1)\n}\n\nfunc (lunarYear *LunarYear) GetPositionXi", "LunarYear star off by one"),
 ("C17", "anwu-index", "calendar/Tao.go", "TaoUtil.AN_WU[m-1]", "TaoUtil.AN_WU[m%12]", "dark-wu day uses next month's branch"),
 ("C17", "foto-year-correction", "calendar/Foto.go", "return f.lunar.GetYear() - DEAD_YEAR + 1", "sy := f.lunar.GetSolar().GetYear()\n\ty := sy - DEAD_YEAR\n\tif sy == f.lunar.GetYear() {\n\t\ty++\n\t}\n\treturn y", "original defect reintroduced"),
 ("C18", "position-xi-by-branch", "calendar/Lunar.go", "return LunarUtil.POSITION_XI[lunar.dayGanIndex+1]", "return LunarUtil.POSITION_XI[lunar.dayZhiIndex%10+1]", "joy-god direction depends on the branch"),
 ("C18", "zhixing-exact-month", "calendar/Lunar.go", "offset := lunar.dayZhiIndex - lunar.monthZhiIndex\n", "offset := lunar.dayZhiIndex - lunar.monthZhiIndexExact\n", "duty god uses the instant-based month on Jie days"),
 ("C19", "year-not-padded", "calendar/Solar.go", 'return fmt.Sprintf("%04d-%02d-%02d", solar.year, solar.month, solar.day)', 'return fmt.Sprintf("%d-%02d-%02d", solar.year, solar.month, solar.day)', "years below 1000 lose their zero padding"),
 ("C19", "leap-marker-dropped", "calendar/Lunar.go", 's += "闰"\n\t\ts += LunarUtil.MONTH[-lunar.month]', 's += LunarUtil.MONTH[-lunar.month]', "leap months print like regular ones"),
 ("C20", "aries-start", "calendar/Solar.go", "if y >= 321 && y <= 419 {", "if y >= 322 && y <= 419 {", "March 21 falls to Pisces' else-branch"),
 ("C20", "kth-weekday-floor", "calendar/Solar.go", "weeks := int(math.Ceil(float64(solar.day) / 7))", "weeks := solar.day/7 + 1", "days 7, 14, 21 counted into the next week"),
]

def run(cmd, **kw):
    return subprocess.run(cmd, shell=True, capture_output=True, text=True, env=ENV, **kw)

def main():
    want = set(sys.argv[1:])
    os.makedirs(V + "/.build/selftest", exist_ok=True)
    out_path = V + "/selftest.json"
    results = {}
    if os.path.exists(out_path):
        try:
            results = {r["property"] + ":" + r["name"]: r for r in json.load(open(out_path))["mutants"]}
        except Exception:
            results = {}
    for prop, name, f, old, new, note in M:
        if want and prop not in want:
            continue
        src = open("/repo/" + f).read()
        key = prop + ":" + name
        if src.count(old) != 1:
            results[key] = dict(property=prop, name=name, file=f, status="not-applicable", note="pattern occurs %d times in the current tree" % src.count(old))
            print(key, "pattern not applicable", src.count(old)); continue
        mut = V + "/.build/selftest/" + prop + "_" + name + ".go"
        open(mut, "w").write(src.replace(old, new))
        ov = V + "/.build/selftest/overlay_" + prop + "_" + name + ".json"
        json.dump({"Replace": {"/repo/" + f: mut}}, open(ov, "w"))
        t = run("cd /repo && go test -overlay %s -vet=off -count=1 ./... 2>&1 | tail -3" % ov)
        tests_pass = "FAIL" not in t.stdout and "ok" in t.stdout
        t0 = time.time()
        c = run("cd %s && timeout 900 ./check mutant %s quick /repo/%s=%s 2>&1 | grep -E '^(VIOLATION|%s tier|ERROR)' | head -5" % (V, prop, f, mut, prop))
        viol = "VIOLATION property=" + prop in c.stdout
        results[key] = dict(property=prop, name=name, file=f, note=note, repo_tests_pass=tests_pass, detected=viol, seconds=round(time.time() - t0, 1),
                            status=("detected" if viol and tests_pass else "detected-but-tests-also-fail" if viol else "MISSED"), first_lines=c.stdout.strip().split("\n")[:2])
        print(key, results[key]["status"], "tests_pass=%s" % tests_pass, flush=True)
        json.dump({"mutants": sorted(results.values(), key=lambda r: (r["property"], r["name"]))}, open(out_path, "w"), indent=1, ensure_ascii=False)

if __name__ == "__main__":
    main()
