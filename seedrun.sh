#!/bin/bash
# seedrun.sh <seeded-id> [Cnn] [tier] — run a check against a kept seeded change (through the build overlay; /repo untouched).
set -u
ID=$1; SD=/verif/seeded/$ID
P=${2:-$(python3 -c "import json;print(json.load(open('$SD/meta.json'))['breaks_property'])")}
TIER=${3:-quick}
WT=/tmp/wt/seedrun_$$
git -C /repo worktree add -q --detach $WT HEAD || exit 2
( cd $WT && git apply $SD/patch.diff ) || { echo "SEEDRUN $ID PATCH DOES NOT APPLY"; git -C /repo worktree remove --force $WT; exit 3; }
PAIRS=""; mkdir -p /tmp/wt/seedrun_files_$$
for f in $(cd $WT && git diff --name-only); do mkdir -p /tmp/wt/seedrun_files_$$/$(dirname $f); cp $WT/$f /tmp/wt/seedrun_files_$$/$f; PAIRS="$PAIRS /repo/$f=/tmp/wt/seedrun_files_$$/$f"; done
git -C /repo worktree remove --force $WT
cd /verif
OUT=$(VERIF_MUT_DIR=/verif/.build/mut_seedrun_$$ timeout 3000 ./check mutant $P $TIER $PAIRS 2>&1)
N=$(echo "$OUT" | grep -c "^VIOLATION property=$P")
echo "$OUT" | grep -E "^  fp=" | head -2 | cut -c1-200
if [ "$N" -gt 0 ]; then echo "SEEDRUN $ID $P $TIER DETECTED ($N violation lines)"; else echo "SEEDRUN $ID $P $TIER MISSED: $(echo "$OUT" | tail -1 | cut -c1-200)"; fi
rm -rf /tmp/wt/seedrun_files_$$ /verif/.build/mut_seedrun_$$
