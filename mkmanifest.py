#!/usr/bin/env python3
# Regenerates /verif/MANIFEST.json from the table below (kept valid against /root/.vp/MANIFEST.schema.json).
import json
BASE = "cd /repo && go test -mod=mod -json -vet=off -count=1 -timeout 25m ./..."
SWEEP = "explicit-state enumeration of every civil day of the year set on the real code (worker processes), lock-step reference model"
checks = {
 "C01": (SWEEP + " R1; round trips, edge order, two-path digests, lunar stepping",
         "Every civil day 0001-01-01..9998-12-31 (thorough; quick = seam windows + stride years) x slot-edge times (thorough: all 26 in the quick set's years and on every boundary state of every year, six elsewhere) is a state; conversions, both construction paths and Lunar.Next(n) are transitions executed on the real code and compared with the integer day model and with each other. Strict order along every NextDay(1) edge gives the bijection. Exhaustive within the stated alphabets.",
         "R1 day numbering; full getter digests are taken on a stated subset, field digests (whole struct state incl. 31 term instants) everywhere", "4 C01"),
 "C02": ("exhaustive enumeration of all lunations / lunar years of the stated ranges against an independent ephemeris (R3) and ICU, with the leap rule re-evaluated on the library's own data",
         "Every month of every year table 1645..3000 and every lunar year 1929..3000: new-moon day against R3 (era margins), the no-major-term rule re-evaluated on the library's own term days (no margin) and on R3's events, ICU month starts 1900..2100. Events inside the oracle's margin of midnight are counted undecided, never failed.",
         "R3 written from published formulas and self-tested at start-up; ICU is a system library (leg skipped with a note if absent)", "4 C02"),
 "C03": ("exhaustive enumeration of all 31 entries of all year tables: root check through the library's own exported longitude function (1 s), independent ephemeris (20 min), structure, and every lookup function on boundary query moments; daily term names over all days",
         "All 309,938 table instants are checked as roots of the library's ephemeris (verif-tagged export) and against R3 for years 1..3000; order, gaps and agreement of adjacent tables; 12 lookup functions on {t-1s,t,t+1s,00:00:00,23:59:59} around every entry against max/min over the table; day-level term names on every civil day.",
         "root tolerance two seconds of solar motion (rounding + Newton residual); R3 margin 20 min + delta-T spread", "4 C03"),
 "C04": (SWEEP + " R1 (integer day numbers); boundary-time and step alphabets",
         "Every civil day 0001-01-01..9998-12-31 is a state; every step in the day/hour/month/year alphabets and every JD inverse on the time alphabet is a transition executed on the real code and compared with an integer day-number model. Exhaustive over days and alphabets; the real-valued JD domain is reduced to boundary alphabets (DESIGN.md C04).",
         "R1 integer calendar arithmetic in the harness; float tolerance 2e-9 day", "4 C04"),
 "C05": (SWEEP + " R2 (mod-60 counters on the library's own term table); all change-over instants +-1s",
         "Every civil day x (26 slot edges + every term instant of the day +-1 s) is a state; all pillar getters, in index/string/EightChar forms and all conventions, are compared with mod-60 reference counters. The reference is piecewise constant and the enumeration sits on every breakpoint, so agreement on the enumerated states is agreement everywhere (given the term table, which is C03's subject).",
         "day-pillar anchor; library's own term table taken as given", "4 C05"),
 "C06": ("explicit-state enumeration of all year tables and of the month-navigation graph they induce",
         "All 9998 year tables (15 months each) are enumerated; structural invariants, agreement of adjacent tables on every shared month, accessor consistency and LunarMonth.Next(n) for 19 offsets against the global month sequence are checked on every table / month. Exhaustive.",
         "reform windows AD 8-23, 236-240 exempt from structural clauses as the property states", "4 C06"),
 "C07": ("exhaustive enumeration of constructor argument boxes per year + breadth-first search over call chains with validity invariant",
         "For every year the whole box of civil (month -1..14 x day -1..33) and lunar (month -12..13 x day 0..31) arguments is tried on every constructor and acceptance compared with R1 validity / the image set of the civil sweep; BFS over stepping and conversion chains (depth 3 quick / 4 thorough from 72 seeds) checks the validity invariant on every produced object.",
         "R1 validity; lunar image set from Solar.GetLunar over neighbouring civil years", "4 C07"),
 "C08": ("exhaustive enumeration of the reachable object graph per state + every exported zero-argument method by reflection; full key-space enumeration of the packed-string decoders",
         "For every civil day of the year set (time of day rotating over the 26 slot edges; thorough: six times of day, plus a light pass over every other day of years 1..9998 that visits Solar, Lunar, EightChar and LunarTime only) the object graph reachable from the date (25 types) is built and every exported zero-argument method is called; totality, index ranges, vocabulary membership, non-empty strings and duplicate-free lists are checked on every result. The decoders of the packed yi/ji and shen-sha strings are additionally enumerated over their complete key space (60x60, 24x60).",
         "name-suffix keyed range/vocabulary rules; fixed list of optional (possibly empty) strings stated in evidence assumptions", "4 C08"),
 "C09": ("explicit-state BFS over call histories on the real package state (fixpoint on a canonical hidden-state digest, cross-checked by an unreduced depth-bounded enumeration) + adjacent-cache and order-independence sweeps + accessor-purity snapshots + stateless exploration of all interleavings at lock points under a hand-written controlled scheduler with iterative preemption bounding + separate free-running race-detector pass",
         "Histories: every call of a 40-call alphabet from every reachable hidden state must return its pristine-state value; all sequences to depth 3 enumerated without reduction. Schedules: the library's sync import is redirected (build overlay) to a shim whose Lock/Unlock are scheduling points; 237 scenarios of 2-3 threads over an 11-operation alphabet (year cache, shared accessors, civil-side callers in a leap year, a common year and 1582) are run under every schedule up to the bound (quick 0,1,2; thorough unbounded with state-key pruning), each result compared with its sequential reference, deadlock = no enabled thread, lock and cache checked at the end. Also: for every year of the year set the same ~130 calls with the year cache primed by Y-1/Y+1/Y+2; one broad probe over all days of a year subset in five visiting orders (one process each) merged as a functional-dependence table; deep private-state snapshots of 26 object types before/after every exported zero-argument method (a write without lock operations = unsynchronised write by a read-only accessor). Long and structured histories, one process each, merged as functional-dependence tables keyed by the call: held objects and 124 probe days asked at process start, after all 123,658 lunar months of years 1..9998 and after 8,003 out-of-range year requests; base day asked after a day +-2^k years / months away with its objects held; a structural input (October 1582, leap days, range ends ...) as the very first call of a process; helper functions called with unrecognised names before their whole key space is enumerated; objects built before the cache is primed with a neighbouring year and used afterwards; exported tables compared before/after every accessor. Worker processes rotate their time zone. Below lock level: go -race on free-running copies of the same thread bodies and shared-accessor sweeps.",
         "scheduling points at mutex operations + race detector for unsynchronised accesses; hidden-state inventory confirmed by a go/ast scan at run time", "4 C09 / 3.3"),
 "C10": ("exhaustive enumeration of moments (days x 13 slot entries x 2 conventions, all Jie instants +-1s and slot ends, base years) with forward conversion as oracle",
         "Every enumerated moment's four pillars are fed to the reverse lookup; the days around the civil calendar's irregular places (end of February in century years, the 1582 switch) with the year itself and year 1 as base year; completeness (a result in the same slot), soundness (every result converts forward to the same pillars, not before the base year) and strict order are checked on every lookup.",
         "forward conversion is C05's subject; wall-clock year read once per worker", "4 C10"),
 "C12": ("exhaustive enumeration of birth moments of a year set x gender x school, whole fortune tree per configuration, decode-and-compare / mod-60 reference",
         "Every day of the birth-year set at two times plus five moments around every Jie instant; direction, start offset (decoded back to elapsed time), start date, contiguity and ages of the ten great periods, and the pillars of every annual/minor/monthly fortune are compared with the rule sentences.",
         "school-1 tolerance 2 slots, school-2 1 minute (reasons in DESIGN.md C12)", "4 C12"),
 "C14": ("exhaustive enumeration of all days/months/years/targets of the holiday table against a parsed record-set model + exhaustive enumeration of Fix histories (each in its own fresh process) on the real package state",
         "Pristine table: every view compared with sorted filters of the parsed record set; every day x 25 step counts for the workday walk; pay rate on every day; the walk also on 20 whole years outside the table's span (Julian era, 1582, century years, range ends) and the pay rate on every day of 1900..2100. Fix machine: every history over a 33-call alphabet to depth 2 (quick and thorough) and, in the thorough tier, every depth-3 history whose second and third call come from a 17-call core alphabet, each executed in its own process, with all views, the workday walk and the pay rate observed before the first fix-up and re-compared with the record-set model after each.",
         "R5 insert/overwrite/delete semantics of Fix; statutory-day list as documented in the code", "4 C14"),
 "C11": (SWEEP + "; fixed list of ~95 route pairs per moment, functional-dependence tables for eight-character attributes",
         "Every day x 14 moments (outside the quick set's years the thorough tier uses the quick rotation: 14 on term days, month ends and every third day, else 4): both routes of every pair are executed and compared (the deprecated eight-character aliases under both day-boundary conventions); per year, every accessor of lunar month objects taken from the year's 15-entry list or reached by Next(n) is compared with the directly built month; eight-character attributes are collapsed by the pillars selected by the current sect and a second value per key is a violation with two witnesses.",
         "dependence keys are projections of the four pillars (listed in evidence assumptions)", "4 C11"),
 "C13": (SWEEP + " R4 (rule sentences on the library's own term days and integer day stems)",
         "Every civil day: the 72 phenological names pairwise different; presence, absence, name and index of nine-nines, dog days, pentads/phenology, New Year's Eve, Cold Food and She days compared with the rule sentences; index continuity along edges.",
         "term days are the library's own (C03)", "4 C13"),
 "C15": (SWEEP + " R1; all seven week starts, both stepping modes, step alphabet",
         "Every civil day x 7 week starts: week membership, indices, whole-week and month-separated stepping (forward and back) against integer day arithmetic; every month/season/half-year/year unit.",
         "R1; position semantics of month-separated weeks as worded in the property", "4 C15"),
 "C16": (SWEEP + " R4 (step rules along every consecutive pair of moments, anchors from integer day numbers)",
         "Every civil day x (midnight, every Jie instant -1s/+0s, noon, 23:59:59) x three conventions for year/month stars with the step rule on every edge and the 2024 anchor; day star against nearest-jiazi anchors; hour star of both implementations on all 13 slot entries, unchanged when the date's eight-character convention is switched.",
         "term days/instants are the library's own; tie rules stated in evidence assumptions", "4 C16"),
 "C17": (SWEEP + "; functional-dependence tables keyed by (month, day, day pillar, term) + table membership",
         "Every civil day: year offsets, constructor round trips, every predicate collapsed by its defining inputs and compared with the exported tables for non-leap months; in a leap month a listed-day predicate may hold only if the same day of the repeated month is listed.",
         "six-fasting-day predicate also keyed by month length (its definition)", "4 C17"),
 "C18": (SWEEP + "; functional-dependence tables (differential oracle, two witnesses) + four classical laws",
         "Every civil day x 13 slot entries: ~110 attribute getters grouped by declared defining inputs, each group collapsed by key across all enumerated states (tables merged across worker processes); mansion order, duty-god, clash and nayin laws on every state/edge; xun / empty branches of the fortune objects (great, annual, minor, monthly) share the pair-keyed table of the pillars.",
         "grouping of getters by defining input follows the property text", "4 C18"),
 "C19": (SWEEP + " regex + parse-back + strict order of consecutive strings",
         "Every civil day 1..9999 x 26 times: canonical form, parse-back and strict lexicographic increase along the total order of moments (monotone => order-isomorphic => injective); every lunar/Tao/Foto/LunarMonth/LunarYear rendering reached is parsed back with the inverse tables (at least one year digit required); moments reached by NextHour/NextDay/Next (whole days back in hours, round trips from midnight) must print as the canonical rendering of the moment reached.",
         "R6 parser is the inverse of the exported NUMBER/MONTH/DAY tables (uniqueness asserted)", "4 C19"),
 "C20": (SWEEP + " 366-entry sign table and k-th/last weekday reference from R1",
         "Every civil day 1..9998 in both tiers: sign against the conventional table and run structure along edges; festival lists against k-th / last weekday occurrence computed from integer day numbers; once-per-year counts per year.",
         "conventional sign start days; R1 weekday", "4 C20"),
}
NA = []
m = {
 "version": 1,
 "setup_cmd": "./check setup",
 "hooks": {"guard": "verif", "enable": "go build -tags verif -overlay /verif/.build/overlay.json (overlay generated by ./check: sync->vsync import rewrite, verif-tagged export files added to ShouXingUtil/HolidayUtil/calendar; /repo itself is untouched)",
           "baseline_off_cmd": BASE, "source_commits": [], "add_only": True},
 "engines": [
  {"name": "E1-sweep", "path": "mc/sweep.go", "serves_properties": sorted(checks), "kind_free_text": "explicit-state enumeration of the civil-day transition system on the real code in worker processes, lock-step reference models"},
  {"name": "E2-bfs", "path": "mc/c09.go, mc/c14.go, mc/c07.go", "serves_properties": ["C07", "C09", "C14"], "kind_free_text": "breadth-first search over operation sequences of the real API (replay from pristine state + one op), exact or canonical state keys"},
  {"name": "E3-scheduler", "path": "mc/sched.go, mc/shim/vsync.go", "serves_properties": ["C09"], "kind_free_text": "controlled cooperative scheduler at mutex operations (sync->vsync build overlay), DFS over choice sequences with iterative preemption bounding and state-key pruning; separate -race pass"},
 ],
 "checks": [],
 "notes": "All checks: ./check <id> [quick|thorough]; exit 0 held, 1 VIOLATION, 2 harness/build error. Known findings: KNOWN_FINDINGS.txt.",
 "not_applicable": NA,
}
for cid in sorted(checks):
    tech, text, note, ref = checks[cid]
    m["checks"].append({"property_id": cid, "quick_cmd": f"./check {cid} quick", "thorough_cmd": f"./check {cid} thorough",
        "evidence_file": f"/verif/evidence/{cid}.json", "replay_cmd_template": "./check replay {path}", "engine": "E1-sweep",
        "level_claimed": {"category": "model_checking", "text": text, "design_ref": ref}, "level_note": note, "technique": tech})
json.dump(m, open("/verif/MANIFEST.json", "w"), indent=1, ensure_ascii=False)
import jsonschema
jsonschema.validate(m, json.load(open("/root/.vp/MANIFEST.schema.json")))
print("MANIFEST ok:", len(m["checks"]), "checks")
