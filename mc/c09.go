package main

// C09 — results do not depend on call history or on concurrent callers.
//  9a  E2: explicit-state search over call histories on the real package state (reduced BFS to a
//      fixpoint on a canonical hidden-state digest + unreduced enumeration of all sequences to a
//      depth as a differential check of the abstraction), accessor-pair histories on shared objects.
//  9b  E3: every interleaving at lock points of 2-3 harness threads under the controlled scheduler,
//      iterative preemption bounding (quick: bounds 0,1,2; thorough: unbounded with state-key pruning).
//  9c  separate free-running -race pass over the same thread bodies.

import (
	"bytes"
	"fmt"
	"go/ast"
	"go/parser"
	"go/token"
	"os"
	"os/exec"
	"path/filepath"
	"reflect"
	"sort"
	"strings"
	"sync"

	"github.com/6tail/lunar-go/FotoUtil"
	"github.com/6tail/lunar-go/HolidayUtil"
	"github.com/6tail/lunar-go/LunarUtil"
	"github.com/6tail/lunar-go/SolarUtil"
	"github.com/6tail/lunar-go/TaoUtil"
	"github.com/6tail/lunar-go/calendar"
	"github.com/6tail/lunar-go/vsync"
)

func init() {
	register(&Check{
		ID:     "C09",
		Rule:   "9a: breadth-first search over call histories (alphabet of 34 public calls incl. 7 recovered panicking calls) from the pristine package state, de-duplicated on a canonical digest of all hidden state (year cache contents, lock, holiday tables, exported lookup tables), run to a fixpoint, every call's result digest compared with the same call on the pristine state; unreduced enumeration of all call sequences to depth 3 (quick: depth 2 + depth 3 on a 12-call core) whose reached digests must be a subset of the fixpoint set; all ordered pairs of zero-argument accessors on shared Lunar objects. 9b: all schedules at lock points of every 2-thread pair over an 8-operation alphabet, 2x2-operation threads over a 4-operation core and 3-thread triples over a 5-operation core, preemption bound 0,1,2 (quick) / unbounded with state-key pruning (thorough); oracle: every result digest equals its sequential reference, no deadlock, lock free and cache equal to a freshly built table at the end. 9c: free-running -race pass over the same thread bodies. non-trivial = schedules in which two threads' critical sections interleave (path signature differs from the sequential one) + histories that change the hidden state",
		Assume: []string{"scheduling points at Mutex.Lock/Unlock are sufficient because unsynchronised accesses are checked separately by the race detector on free-running threads", "hidden state = {CACHE_YEAR, lock, dataInUse, namesInUse, exported tables}; a go/ast scan of /repo lists every package-level variable assigned inside a function body and is reported in the evidence", "digests cover every field reachable through public getters of the returned object"},
		Shards: func(tier string, seed int64) []Shard {
			var sh []Shard
			sh = append(sh, Shard{Kind: "scan", Tier: tier, Seed: seed}, Shard{Kind: "bfs", Tier: tier, Seed: seed})
			for i := 0; i < len(c09Hist()); i++ {
				sh = append(sh, Shard{Kind: "seq", Arg: fmt.Sprint(i), Tier: tier, Seed: seed})
			}
			nobj := 3
			if tier == "thorough" {
				nobj = 20
			}
			for i := 0; i < nobj; i++ {
				sh = append(sh, Shard{Kind: "pairs", Arg: fmt.Sprint(i), Tier: tier, Seed: seed})
			}
			for i := 0; i < 16; i++ {
				sh = append(sh, Shard{Kind: "sched", Arg: fmt.Sprintf("%d/16", i), Tier: tier, Seed: seed})
			}
			sh = append(sh, Shard{Kind: "purity", Tier: tier, Seed: seed})
			sh = append(sh, yearShards(tier, seed, 9998, "adjcache")...)
			for o := 0; o < 4; o++ {
				for ord := 0; ord < 5; ord++ {
					sh = append(sh, Shard{Kind: "orders", Arg: fmt.Sprintf("%d,%d", o, ord), Tier: tier, Seed: seed})
				}
			}
			// long and structured histories, one process each (c09hist.go)
			sh = append(sh, Shard{Kind: "longhist", Tier: tier, Seed: seed}, Shard{Kind: "histref", Tier: tier, Seed: seed}, Shard{Kind: "junk", Arg: "ref", Tier: tier, Seed: seed}, Shard{Kind: "junk", Arg: "junk", Tier: tier, Seed: seed})
			for i := 0; i < 4; i++ {
				sh = append(sh, Shard{Kind: "jumps", Arg: fmt.Sprint(i), Tier: tier, Seed: seed})
			}
			for i := range firstUses() {
				sh = append(sh, Shard{Kind: "firstuse", Arg: fmt.Sprint(i), Tier: tier, Seed: seed})
			}
			for part := 0; part < 4; part++ {
				sh = append(sh, Shard{Kind: "race", Arg: fmt.Sprintf("%d/4", part), Tier: tier, Seed: seed})
			}
			return sh
		},
		Run: runC09,
		Post: func(m *Result, tier string) {
			red, unred := m.Distinct["reduced_states"], m.Distinct["unreduced_states"]
			for k := range unred {
				if !red[k] {
					fp := "C09:abstraction:unreduced-state-not-in-fixpoint"
					if _, ok := m.Violations[fp]; !ok {
						m.Violations[fp] = &Violation{FP: fp, Msg: "the unreduced depth-bounded enumeration reached a hidden-state digest the reduced search did not predict: " + k, Input: k, Count: 1}
					}
				}
			}
		},
		MinNontrivial: 20,
	})
}

// ---------------------------------------------------------------------------------------------
// digests

func yearDigest(ly *calendar.LunarYear) string {
	if ly == nil {
		return "nil"
	}
	var sb strings.Builder
	fmt.Fprintf(&sb, "Y%d g%d z%d ", ly.GetYear(), ly.GetGanIndex(), ly.GetZhiIndex())
	if ly.GetMonths() == nil {
		sb.WriteString("months=nil ")
	} else {
		for e := ly.GetMonths().Front(); e != nil; e = e.Next() {
			m := e.Value.(*calendar.LunarMonth)
			fmt.Fprintf(&sb, "%d/%d:%d@%.1f#%d ", m.GetYear(), m.GetMonth(), m.GetDayCount(), m.GetFirstJulianDay(), m.GetIndex())
		}
	}
	for _, j := range ly.GetJieQiJulianDays() {
		fmt.Fprintf(&sb, "%.6f ", j)
	}
	return sb.String()
}

func monthDigest(m *calendar.LunarMonth) string {
	if m == nil {
		return "nil"
	}
	return fmt.Sprintf("%d/%d:%d@%.1f#%d", m.GetYear(), m.GetMonth(), m.GetDayCount(), m.GetFirstJulianDay(), m.GetIndex())
}

var exportedHashOnce string

func exportedTablesHash() string {
	vars := []interface{}{LunarUtil.GAN, LunarUtil.ZHI, LunarUtil.JIA_ZI, LunarUtil.XUN, LunarUtil.XUN_KONG, LunarUtil.LIU_YAO, LunarUtil.HOU, LunarUtil.WU_HOU, LunarUtil.POSITION_XI, LunarUtil.POSITION_YANG_GUI, LunarUtil.POSITION_YIN_GUI,
		LunarUtil.POSITION_FU, LunarUtil.POSITION_FU_2, LunarUtil.POSITION_CAI, LunarUtil.POSITION_TAI_SUI_YEAR, LunarUtil.POSITION_GAN, LunarUtil.POSITION_ZHI, LunarUtil.POSITION_TAI_DAY, LunarUtil.POSITION_TAI_MONTH, LunarUtil.ZHI_XING, LunarUtil.TIAN_SHEN,
		LunarUtil.PENGZU_GAN, LunarUtil.PENGZU_ZHI, LunarUtil.NUMBER, LunarUtil.MONTH, LunarUtil.SEASON, LunarUtil.SHENG_XIAO, LunarUtil.DAY, LunarUtil.YUE_XIANG, LunarUtil.CHONG, LunarUtil.CHONG_GAN, LunarUtil.CHONG_GAN_TIE, LunarUtil.CHONG_GAN_4,
		LunarUtil.HE_GAN_5, LunarUtil.HE_ZHI_6, LunarUtil.ZHI_TIAN_SHEN_OFFSET, LunarUtil.TIAN_SHEN_TYPE, LunarUtil.TIAN_SHEN_TYPE_LUCK, LunarUtil.LU, LunarUtil.FESTIVAL, LunarUtil.OTHER_FESTIVAL, LunarUtil.XIU, LunarUtil.XIU_LUCK, LunarUtil.XIU_SONG,
		LunarUtil.SHOU, LunarUtil.SHA, LunarUtil.POSITION_DESC, LunarUtil.GONG, LunarUtil.ZHENG, LunarUtil.ANIMAL, LunarUtil.WU_XING_GAN, LunarUtil.WU_XING_ZHI, LunarUtil.NAYIN, LunarUtil.SHI_SHEN, LunarUtil.ZHI_HIDE_GAN, LunarUtil.BASE_MONTH_ZHI_INDEX,
		SolarUtil.WEEK, SolarUtil.DAYS_OF_MONTH, SolarUtil.XINGZUO, SolarUtil.FESTIVAL, SolarUtil.WEEK_FESTIVAL, SolarUtil.OTHER_FESTIVAL,
		calendar.JIE_QI, calendar.JIE_QI_IN_USE, calendar.LEAP_11, calendar.LEAP_12, calendar.YMC, calendar.YUAN, calendar.YUN, calendar.NUMBER, calendar.COLOR, calendar.WU_XING, calendar.POSITION, calendar.MONTH_ZHI, calendar.CHANG_SHENG, calendar.BIRTH_YEAR, calendar.DEAD_YEAR,
		HolidayUtil.NAMES, TaoUtil.SAN_HUI, TaoUtil.SAN_YUAN, TaoUtil.WU_LA, TaoUtil.AN_WU, TaoUtil.BA_HUI, TaoUtil.BA_JIE, TaoUtil.FESTIVAL, FotoUtil.DAY_ZHAI_GUAN_YIN, FotoUtil.XIU_27, FotoUtil.XIU_OFFSET, FotoUtil.FESTIVAL, FotoUtil.OTHER_FESTIVAL}
	var sb strings.Builder
	for _, v := range vars {
		sb.WriteString(render(reflect.ValueOf(v)))
		sb.WriteByte('\n')
	}
	return hashStr(sb.String())
}

// exportedTablesHashNow: the exported tables plus the holiday names/records, as they are at this moment.
func exportedTablesHashNow() string {
	n, d := HolidayUtil.VerifState()
	return hashStr(exportedTablesHash() + "|" + strings.Join(n, ",") + "|" + d)
}

func c09Lock() *vsync.Mutex { return calendar.VerifLock().(*vsync.Mutex) }

// hiddenState: canonical digest of every piece of hidden state the library has.
func hiddenState() string {
	names, data := HolidayUtil.VerifState()
	return "cache=" + hashStr(yearDigest(calendar.CACHE_YEAR)) + " lockHeld=" + fmt.Sprint(c09Lock().Held) + " hol=" + hashStr(strings.Join(names, "|")+"#"+data) + " tables=" + exportedTablesHash()
}

func resetHidden() {
	calendar.CACHE_YEAR = nil
	l := c09Lock()
	l.Held, l.Owner = false, 0
	HolidayUtil.VerifReset()
}

func safeDigest(f func() string) (out string) {
	defer func() {
		if r := recover(); r != nil {
			out = "PANIC:" + fmt.Sprint(r)
		}
	}()
	return f()
}

// ---------------------------------------------------------------------------------------------
// 9a alphabet

type hop struct {
	name string
	f    func() string
}

func c09Hist() []hop {
	var ops []hop
	for _, y := range []int{1, 18, 237, 1582, 2019, 2020, 2021, 9998} {
		y := y
		ops = append(ops, hop{fmt.Sprintf("NewSolarFromYmd(%d,6,15).GetLunar()", y), func() string { return fieldDigest(calendar.NewSolarFromYmd(y, 6, 15).GetLunar()) }})
	}
	for _, y := range []int{2019, 2020, 2021, 237} {
		y := y
		ops = append(ops, hop{fmt.Sprintf("NewLunarYear(%d)", y), func() string { return yearDigest(calendar.NewLunarYear(y)) }})
	}
	ops = append(ops,
		hop{"NewLunarFromYmd(2020,12,3)", func() string { return fieldDigest(calendar.NewLunarFromYmd(2020, 12, 3)) }},
		hop{"NewLunarFromYmd(2021,1,1)", func() string { return fieldDigest(calendar.NewLunarFromYmd(2021, 1, 1)) }},
		hop{"NewSolarFromYmd(2021,1,15).GetLunar()", func() string { return fieldDigest(calendar.NewSolarFromYmd(2021, 1, 15).GetLunar()) }},
		hop{"NewLunarMonthFromYm(2020,4).Next(13)", func() string { return monthDigest(calendar.NewLunarMonthFromYm(2020, 4).Next(13)) }},
		hop{"NewLunarMonthFromYm(2020,4).Next(-13)", func() string { return monthDigest(calendar.NewLunarMonthFromYm(2020, 4).Next(-13)) }},
		hop{"Lunar(2020-06-15).GetDayNineStar()", func() string { return calendar.NewSolarFromYmd(2020, 6, 15).GetLunar().GetDayNineStar().String() }},
		hop{"Lunar(2021-02-11).GetFestivals+Other", func() string {
			l := calendar.NewSolarFromYmd(2021, 2, 11).GetLunar()
			return render1(l.GetFestivals()) + render1(l.GetOtherFestivals())
		}},
		hop{"Lunar(2020-07-20).GetFu()", func() string { return render1(calendar.NewSolarFromYmd(2020, 7, 20).GetLunar().GetFu()) }},
		hop{"LiuNian.GetGanZhi", func() string {
			ec := calendar.NewSolar(2020, 5, 5, 10, 0, 0).GetLunar().GetEightChar()
			return ec.GetYun(1).GetDaYun()[2].GetLiuNian()[3].GetGanZhi()
		}},
		hop{"LunarMonth(2020,-4).GetGanIndex", func() string { return fmt.Sprint(calendar.NewLunarMonthFromYm(2020, -4).GetGanIndex()) }},
		hop{"ListSolarFromBaZi", func() string { return render1(calendar.ListSolarFromBaZi("庚子", "戊子", "己卯", "庚午")) }},
		hop{"Solar(2020-10-08).Next(3,true)", func() string { return calendar.NewSolarFromYmd(2020, 9, 30).Next(3, true).ToYmd() }},
		hop{"GetHolidaysByYear(2020)", func() string { return strings.Join(holList(HolidayUtil.GetHolidaysByYear(2020)), ",") }},
		hop{"Solar(2020-10-01).GetSalaryRate", func() string { return fmt.Sprint(calendar.NewSolarFromYmd(2020, 10, 1).GetSalaryRate()) }},
		hop{"Foto(2021).IsDayZhaiSix", func() string { return fmt.Sprint(calendar.NewFotoFromYmd(2565, 1, 28).IsDayZhaiSix()) }},
		// panicking calls, recovered
		hop{"PANIC NewSolar(2021,2,30)", func() string { return fmt.Sprint(calendar.NewSolar(2021, 2, 30, 0, 0, 0)) }},
		hop{"PANIC NewSolarFromYmd(1582,10,10)", func() string { return fmt.Sprint(calendar.NewSolarFromYmd(1582, 10, 10)) }},
		hop{"PANIC NewLunarFromYmd(2020,13,1)", func() string { return fmt.Sprint(calendar.NewLunarFromYmd(2020, 13, 1)) }},
		hop{"PANIC NewLunarFromYmd(2021,-4,1)", func() string { return fmt.Sprint(calendar.NewLunarFromYmd(2021, -4, 1)) }},
		hop{"PANIC NewLunarFromYmd(2020,4,31)", func() string { return fmt.Sprint(calendar.NewLunarFromYmd(2020, 4, 31)) }},
		hop{"PANIC NewLunar(2020,1,1,24,0,0)", func() string { return fmt.Sprint(calendar.NewLunar(2020, 1, 1, 24, 0, 0)) }},
		hop{"PANIC SolarUtil.GetDaysInYear(1582,10,10)", func() string { return fmt.Sprint(SolarUtil.GetDaysInYear(1582, 10, 10)) }},
		// holiday lookups that hit and that miss, through every entry point
		hop{"GetHolidaysByTarget(2020-10-01)", func() string { return strings.Join(holList(HolidayUtil.GetHolidaysByTarget("2020-10-01")), ",") }},
		hop{"GetHolidaysByTarget(2020-05-02) (no such target)", func() string { return strings.Join(holList(HolidayUtil.GetHolidaysByTarget("2020-05-02")), ",") }},
		hop{"GetHolidaysByTargetYmd(1999,1,1) (outside the records)", func() string { return strings.Join(holList(HolidayUtil.GetHolidaysByTargetYmd(1999, 1, 1)), ",") }},
		hop{"GetHoliday(2020-05-06) (no record)", func() string { return fmt.Sprint(HolidayUtil.GetHoliday("2020-05-06")) }},
		hop{"GetHolidaysByYm(2020,3) (no record)", func() string { return strings.Join(holList(HolidayUtil.GetHolidaysByYm(2020, 3)), ",") }},
		hop{"PANIC? GetHolidays(\"\")", func() string { return strings.Join(holList(HolidayUtil.GetHolidays("")), ",") }},
	)
	return ops
}

// runHistory executes a history on the pristine state under the scheduler (one thread) and returns per-call digests and the final hidden state.
func runHistory(ops []hop, h []int) (res []string, state string, dead bool) {
	body := func(t *thr) {
		for _, i := range h {
			t.Res = append(t.Res, safeDigest(ops[i].f))
		}
	}
	x := runSchedule(nil, []func(*thr){body}, nil, nil, resetHidden)
	state = hiddenState() + fmt.Sprintf(" anyMutexHeld=%v", x.lockHeld)
	return x.thrs[0].Res, state, x.deadlock
}

func runC09(w *W) {
	switch w.Shard.Kind {
	case "scan":
		c09Scan(w)
	case "bfs":
		c09BFS(w)
	case "seq":
		c09Seq(w)
	case "pairs":
		c09Pairs(w)
	case "sched":
		c09Sched(w)
	case "purity":
		c09Purity(w)
	case "adjcache":
		c09AdjCache(w)
	case "orders":
		c09Orders(w)
	case "race":
		c09Race(w)
	case "longhist":
		c09LongHist(w)
	case "histref":
		c09HistRef(w)
	case "jumps":
		c09Jumps(w)
	case "firstuse":
		c09FirstUse(w)
	case "junk":
		c09Junk(w)
	}
}

func c09Refs(ops []hop) []string {
	refs := make([]string, len(ops))
	for i := range ops {
		r, _, _ := runHistory(ops, []int{i})
		refs[i] = r[0]
	}
	return refs
}

func histNamesC09(ops []hop, h []int) []string {
	var out []string
	for _, i := range h {
		out = append(out, ops[i].name)
	}
	return out
}

func c09CheckHistory(w *W, ops []hop, refs []string, h []int, setName string) string {
	res, state, dead := runHistory(ops, h)
	w.R.Transitions++
	w.R.Evals += int64(len(h))
	if dead {
		w.Viol("C09:history:blocked:"+strings.Join(histNamesC09(ops, h), ">"), fmt.Sprintf("call history %v left the library blocked (a call waits forever for the package lock)", histNamesC09(ops, h)), histNamesC09(ops, h))
		return state
	}
	for k, i := range h {
		w.R.Traces++
		if k < len(res) && res[k] != refs[i] {
			hn := histNamesC09(ops, h[:k+1])
			w.Viol("C09:history:"+strings.Join(hn, ">"), fmt.Sprintf("after history %v the call %s returns a different value than on the pristine state: %s", hn[:k], ops[i].name, firstDiffWords(res[k], refs[i])), hn)
		}
	}
	if strings.Contains(state, "lockHeld=true") || strings.Contains(state, "anyMutexHeld=true") {
		w.Viol("C09:history:lock-held:"+strings.Join(histNamesC09(ops, h), ">"), fmt.Sprintf("history %v leaves the package lock held", histNamesC09(ops, h)), histNamesC09(ops, h))
	}
	w.DistinctAdd(setName, state)
	return state
}

func c09BFS(w *W) {
	ops := c09Hist()
	refs := c09Refs(ops)
	_, s0, _ := runHistory(ops, nil)
	seen := map[string][]int{s0: nil}
	w.DistinctAdd("reduced_states", s0)
	frontier := [][]int{nil}
	depth := 0
	for len(frontier) > 0 {
		var next [][]int
		for _, h := range frontier {
			for i := range ops {
				nh := append(append([]int{}, h...), i)
				st := c09CheckHistory(w, ops, refs, nh, "reduced_states")
				if st != s0 {
					w.R.Nontrivial++
				}
				if _, ok := seen[st]; !ok {
					seen[st] = nh
					next = append(next, nh)
				}
			}
		}
		frontier = next
		if len(next) > 0 {
			depth++
		}
		if depth > 12 {
			w.R.Inexhaustive = "history BFS did not reach a fixpoint within depth 12"
			break
		}
	}
	w.R.States += int64(len(seen))
	w.Count("bfs_states", int64(len(seen)))
	w.Count("bfs_depth", int64(depth))
	// sample
	for st, h := range seen {
		if len(h) == depth {
			w.Sample(map[string]interface{}{"history": histNamesC09(ops, h), "hidden_state": st})
			break
		}
	}
}

func c09Seq(w *W) {
	ops := c09Hist()
	refs := c09Refs(ops)
	first := atoi(w.Shard.Arg)
	core := []int{0, 4, 5, 6, 8, 9, 12, 13, 15, 18, 29, 31}
	inCore := map[int]bool{}
	for _, c := range core {
		inCore[c] = true
	}
	for j := range ops {
		c09CheckHistory(w, ops, refs, []int{first, j}, "unreduced_states")
		for k := range ops {
			if !w.Thorough() && !(inCore[first] && inCore[j] && inCore[k]) {
				continue
			}
			c09CheckHistory(w, ops, refs, []int{first, j, k}, "unreduced_states")
		}
	}
	w.R.States += int64(len(w.R.Distinct["unreduced_states"]))
	if first == 0 {
		w.Sample(map[string]interface{}{"sequence": histNamesC09(ops, []int{0, 29, 13}), "kind": "unreduced depth-3 enumeration"})
	}
}

// c09Pairs: on a shared Lunar object, b after a returns what b alone returns, for all ordered pairs of zero-argument accessors.
func c09Pairs(w *W) {
	moments := [][6]int{{2020, 5, 22, 23, 30, 0}, {2021, 2, 11, 0, 0, 0}, {1582, 10, 15, 12, 0, 0}, {18, 12, 29, 8, 0, 0}, {2033, 12, 22, 1, 0, 0}, {2024, 2, 4, 16, 26, 53}, {1, 1, 1, 0, 0, 0}, {9998, 12, 31, 23, 59, 59},
		{237, 2, 12, 6, 0, 0}, {1900, 1, 31, 11, 0, 0}, {1984, 2, 2, 3, 0, 0}, {2000, 2, 29, 21, 0, 0}, {2020, 6, 21, 5, 43, 0}, {2019, 12, 22, 12, 19, 0}, {2023, 3, 22, 9, 0, 0}, {2023, 7, 11, 13, 0, 0}, {1645, 1, 28, 1, 0, 0}, {1960, 1, 28, 19, 0, 0}, {2100, 12, 31, 17, 0, 0}, {3000, 6, 1, 15, 0, 0}}
	mo := moments[atoi(w.Shard.Arg)%len(moments)]
	mk := func() *calendar.Lunar { return calendar.NewSolar(mo[0], mo[1], mo[2], mo[3], mo[4], mo[5]).GetLunar() }
	resetHidden()
	proto := mk()
	v := reflect.ValueOf(proto)
	idx := zeroArgMethods(v.Type())
	alone := make([]string, len(idx))
	shallowSlices = true
	for k, i := range idx {
		resetHidden()
		o := reflect.ValueOf(mk())
		alone[k] = callOne(o, i, v.Type().Method(i).Name).Out
	}
	// all pairs run inside one scheduler thread, so a call that blocks on a lock left held is seen as a deadlock, not a hang
	x := runSchedule(nil, []func(*thr){func(t *thr) {
		for _, ia := range idx {
			for b, ib := range idx {
				calendar.CACHE_YEAR = nil
				o := reflect.ValueOf(mk())
				callOne(o, ia, "")
				got := callOne(o, ib, "").Out
				w.R.Transitions++
				w.R.Traces++
				w.R.Evals++
				if got != alone[b] {
					na, nb := v.Type().Method(ia).Name, v.Type().Method(ib).Name
					w.Viol("C09:accessor-order:"+na+">"+nb, fmt.Sprintf("on the Lunar of %v, %s after %s returns %s, alone it returns %s", mo, nb, na, clip(got), clip(alone[b])), []string{na, nb})
				}
			}
		}
	}}, nil, nil, resetHidden)
	if x.deadlock {
		w.Viol("C09:accessor-order:blocked", fmt.Sprintf("accessor pairs on the Lunar of %v left the library blocked", mo), mo)
	}
	w.R.States++
	w.Sample(map[string]interface{}{"shared_object": fmt.Sprint(mo), "accessors": len(idx), "ordered_pairs": len(idx) * len(idx)})
}

// ---------------------------------------------------------------------------------------------
// 9b schedules

type shared struct {
	l1, l2 *calendar.Lunar
}

type sop struct {
	name string
	f    func(sh *shared, t *thr) string
}

func c09SchedOps() []sop {
	return []sop{
		{"NewLunarYear(2020)", func(sh *shared, t *thr) string {
			ly := calendar.NewLunarYear(2020)
			t.paths = append(t.paths, fmt.Sprintf("%p", ly))
			return yearDigest(ly)
		}},
		{"NewLunarYear(2021)", func(sh *shared, t *thr) string {
			ly := calendar.NewLunarYear(2021)
			t.paths = append(t.paths, fmt.Sprintf("%p", ly))
			return yearDigest(ly)
		}},
		{"NewSolarFromYmd(2021,1,15).GetLunar()", func(sh *shared, t *thr) string { return fieldDigest(calendar.NewSolarFromYmd(2021, 1, 15).GetLunar()) }},
		{"NewLunarFromYmd(2020,12,3)", func(sh *shared, t *thr) string { return fieldDigest(calendar.NewLunarFromYmd(2020, 12, 3)) }},
		{"NewLunarMonthFromYm(2020,4).Next(10)", func(sh *shared, t *thr) string { return monthDigest(calendar.NewLunarMonthFromYm(2020, 4).Next(10)) }},
		{"PANIC NewLunarFromYmd(2020,13,1)", func(sh *shared, t *thr) string { return fmt.Sprint(calendar.NewLunarFromYmd(2020, 13, 1)) }},
		{"shared.GetDayNineStar()", func(sh *shared, t *thr) string { return sh.l1.GetDayNineStar().String() }},
		{"shared.GetEightChar().GetYear()", func(sh *shared, t *thr) string { return sh.l2.GetEightChar().GetYear() + sh.l2.GetEightChar().GetDay() }},
		// civil-side callers in years whose month tables differ (leap year, common year, 1582): nothing here takes a lock on
		// the pinned tree, so each is one atomic block; a change that puts shared scratch state behind a mutex on this side
		// gets its lock points explored like the year cache's
		{"civil 2020 (leap year)", func(sh *shared, t *thr) string { return civilDigest(2020) }},
		{"civil 2019 (common year)", func(sh *shared, t *thr) string { return civilDigest(2019) }},
		{"civil 1582 (short October)", func(sh *shared, t *thr) string { return civilDigest(1582) }},
	}
}

// civilDigest: what the civil-side helpers and constructors answer around the end of February and in October of year y.
func civilDigest(y int) string {
	// kept to a handful of calls: every call is a potential critical section of a changed library, and the number of
	// schedules grows with the square of the lock points per thread
	return fmt.Sprint(SolarUtil.GetDaysOfMonth(y, 2), SolarUtil.GetDaysOfMonth(y, 10), SolarUtil.GetDaysInYear(y, 12, 31)) + "|" +
		safeDigest(func() string { return calendar.NewSolarFromYmd(y, 2, 28).NextDay(1).ToYmd() }) + "|" +
		safeDigest(func() string { return calendar.NewSolarFromYmd(y, 10, 4).NextDay(1).ToYmd() })
}

type scenario struct {
	name    string
	threads [][]int // op indices per thread
}

func c09Scenarios() []scenario {
	var sc []scenario
	n := len(c09SchedOps())
	for a := 0; a < n; a++ {
		for b := a; b < n; b++ {
			sc = append(sc, scenario{fmt.Sprintf("pair[%d|%d]", a, b), [][]int{{a}, {b}}})
		}
	}
	core := []int{0, 1, 2, 5}
	var bodies [][]int
	for _, a := range core {
		for _, b := range core {
			bodies = append(bodies, []int{a, b})
		}
	}
	for i := 0; i < len(bodies); i++ {
		for j := i; j < len(bodies); j++ {
			sc = append(sc, scenario{fmt.Sprintf("2x2[%v|%v]", bodies[i], bodies[j]), [][]int{bodies[i], bodies[j]}})
		}
	}
	core5 := []int{0, 1, 2, 5, 7}
	for a := 0; a < 5; a++ {
		for b := a; b < 5; b++ {
			for c := b; c < 5; c++ {
				sc = append(sc, scenario{fmt.Sprintf("triple[%d|%d|%d]", core5[a], core5[b], core5[c]), [][]int{{core5[a]}, {core5[b]}, {core5[c]}}})
			}
		}
	}
	return sc
}

func c09Bodies(ops []sop, sh *shared, threads [][]int) []func(t *thr) {
	var bodies []func(t *thr)
	for _, th := range threads {
		th := th
		bodies = append(bodies, func(t *thr) {
			for _, i := range th {
				r := safeDigest(func() string { return ops[i].f(sh, t) })
				t.Res = append(t.Res, r)
				t.Observe(hashStr(r))
			}
		})
	}
	return bodies
}

func c09Sched(w *W) {
	ops := c09SchedOps()
	scs := c09Scenarios()
	var part, of int
	fmt.Sscanf(w.Shard.Arg, "%d/%d", &part, &of)
	sh := &shared{}
	setup := func(t *thr) {
		sh.l1 = calendar.NewSolar(2020, 5, 22, 23, 30, 0).GetLunar()
		sh.l2 = calendar.NewSolar(2021, 2, 3, 23, 10, 0).GetLunar()
		calendar.CACHE_YEAR = nil
	}
	// sequential references (each op alone, through the scheduler)
	refs := make([]string, len(ops))
	for i := range ops {
		x := runSchedule(setup, c09Bodies(ops, sh, [][]int{{i}}), nil, nil, resetHidden)
		if x.deadlock || len(x.thrs[0].Res) != 1 {
			w.Viol("C09:sched:reference-blocked:"+ops[i].name, "single-threaded reference run of "+ops[i].name+" blocked", ops[i].name)
			return
		}
		refs[i] = x.thrs[0].Res[0]
	}
	tableRef := map[int]string{}
	for _, y := range []int{2019, 2020, 2021, 2022} {
		y := y
		x := runSchedule(nil, []func(*thr){func(t *thr) { t.Res = append(t.Res, yearDigest(calendar.NewLunarYear(y))) }}, nil, nil, resetHidden)
		tableRef[y] = x.thrs[0].Res[0]
	}
	stateKey := func() string {
		l := c09Lock()
		return hashStr(yearDigest(calendar.CACHE_YEAR)) + fmt.Sprintf("|%v:%d", l.Held, l.Owner)
	}
	for si, sc := range scs {
		if si%of != part {
			continue
		}
		bounds := []int{0, 1, 2}
		prune := true
		if w.Thorough() {
			bounds = []int{0, 1, 2, -1}
		}
		sigs := map[string]bool{}
		outcomes := map[string]bool{}
		maxPoints := 0
		for _, bnd := range bounds {
			first := true
			var firstObs string
			e := &Explorer{setup: setup, bodies: c09Bodies(ops, sh, sc.threads), stateKey: stateKey, reset: resetHidden, bound: bnd, prune: prune, MaxRuns: map[bool]int{true: 200000, false: 20000}[w.Thorough()]}
			e.check = func(x *Exec, schedule []int) {
				w.R.Transitions++
				w.R.Evals++
				if len(x.points) > maxPoints {
					maxPoints = len(x.points)
				}
				schedStr := fmt.Sprint(schedule)
				rep := map[string]interface{}{"scenario": sc.name, "threads": sc.threads, "ops": opNames(ops, sc.threads), "schedule": schedule, "bound": bnd}
				if x.deadlock {
					w.Viol("C09:sched:deadlock:"+sc.name, fmt.Sprintf("scenario %s schedule %s: no enabled thread while threads %v are unfinished (library left blocked)", sc.name, schedStr, x.blocked), rep)
					return
				}
				if x.lockHeld {
					w.Viol("C09:sched:lock-held:"+sc.name, fmt.Sprintf("scenario %s schedule %s: package lock still held after all threads finished", sc.name, schedStr), rep)
				}
				var obs []string
				for ti, t := range x.thrs {
					for k, r := range t.Res {
						obs = append(obs, hashStr(r))
						if k >= len(sc.threads[ti]) || r != refs[sc.threads[ti][k]] {
							op := "?"
							if k < len(sc.threads[ti]) {
								op = ops[sc.threads[ti][k]].name
							}
							w.Viol("C09:sched:result:"+sc.name, fmt.Sprintf("scenario %s schedule %s: thread %d op %s returned a value different from its sequential reference: %s", sc.name, schedStr, ti, op, firstDiffWords(r, refs[sc.threads[ti][min(k, len(sc.threads[ti])-1)]])), rep)
						}
					}
					if len(t.Res) != len(sc.threads[ti]) {
						w.Viol("C09:sched:incomplete:"+sc.name, fmt.Sprintf("scenario %s schedule %s: thread %d completed %d of %d operations", sc.name, schedStr, ti, len(t.Res), len(sc.threads[ti])), rep)
					}
				}
				outcomes[strings.Join(obs, ",")] = true
				if x.blockedEvents > 0 {
					w.Count("schedules_with_lock_contention", 1)
				}
				if x.preemptionsBefore(len(x.points)) > 0 {
					w.R.Nontrivial++ // the critical sections of different threads were really interleaved (at least one preemption)
					w.Count("schedules_with_preemption", 1)
				}
				if cy := calendar.CACHE_YEAR; cy != nil {
					if ref, ok := tableRef[cy.GetYear()]; ok && yearDigest(cy) != ref {
						w.Viol("C09:sched:cache-corrupt:"+sc.name, fmt.Sprintf("scenario %s schedule %s: the cached table for %d differs from a freshly built one", sc.name, schedStr, cy.GetYear()), rep)
					}
				}
				// path signature: which threads share table pointers
				var ps []string
				for ti, t := range x.thrs {
					for k, p := range t.paths {
						ps = append(ps, fmt.Sprintf("%d.%d=%s", ti, k, p))
					}
				}
				sig := pathSig(ps)
				if !sigs[sig] {
					sigs[sig] = true
				}
				if first {
					first = false
					firstObs = strings.Join(obs, ",")
					// determinism: replay the same schedule and compare observations
					y := runSchedule(setup, c09Bodies(ops, sh, sc.threads), schedule, stateKey, resetHidden)
					var obs2 []string
					for _, t := range y.thrs {
						for _, r := range t.Res {
							obs2 = append(obs2, hashStr(r))
						}
					}
					if strings.Join(obs2, ",") != firstObs || len(y.points) != len(x.points) {
						w.Viol("C09:sched:nondeterministic-replay:"+sc.name, "replaying one schedule twice gave different observations: an uncontrolled source of nondeterminism", rep)
					}
				}
			}
			e.Explore()
			w.Count("schedules", int64(e.Runs))
			w.Count("pruned", int64(e.Pruned))
			w.Count(fmt.Sprintf("schedules_bound_%d", bnd), int64(e.Runs))
			if e.Capped {
				w.R.Inexhaustive = fmt.Sprintf("scenario %s bound %d hit the cap of %d schedules", sc.name, bnd, e.MaxRuns)
			}
		}
		w.R.States++
		w.Count("scenarios", 1)
		w.Count("path_signatures", int64(len(sigs)))
		if len(outcomes) != 1 {
			w.Count("scenarios_with_several_outcomes", 1)
		}
		if si == part {
			w.Sample(map[string]interface{}{"scenario": sc.name, "ops": opNames(ops, sc.threads), "max_points": maxPoints, "distinct_path_signatures": len(sigs), "distinct_outcome_vectors": len(outcomes)})
		}
	}
}

func min(a, b int) int {
	if a < b {
		return a
	}
	return b
}

func opNames(ops []sop, threads [][]int) [][]string {
	var out [][]string
	for _, th := range threads {
		var n []string
		for _, i := range th {
			n = append(n, ops[i].name)
		}
		out = append(out, n)
	}
	return out
}

// pathSig canonicalises pointer identities: items with the same pointer get the same class number.
func pathSig(items []string) string {
	cls := map[string]int{}
	var out []string
	for _, it := range items {
		kv := strings.SplitN(it, "=", 2)
		if _, ok := cls[kv[1]]; !ok {
			cls[kv[1]] = len(cls)
		}
		out = append(out, fmt.Sprintf("%s:%d", kv[0], cls[kv[1]]))
	}
	return strings.Join(out, " ")
}

// ---------------------------------------------------------------------------------------------
// 9c race pass (the body runs inside the -race binary; the normal binary only launches it)

func c09Race(w *W) {
	exe, _ := os.Executable()
	race := filepath.Join(filepath.Dir(exe), "lunarmc-race")
	if os.Getenv("VERIF_IS_RACE_BINARY") == "1" {
		return
	}
	if _, err := os.Stat(race); err != nil {
		w.R.Notes = append(w.R.Notes, "race pass unavailable: no -race binary ("+err.Error()+")")
		w.R.States++
		return
	}
	reps := "20"
	cmd := exec.Command(race, "racepass", reps, w.Shard.Tier, w.Shard.Arg)
	var stderr, stdout bytes.Buffer
	cmd.Stderr, cmd.Stdout = &stderr, &stdout
	cmd.Env = append(os.Environ(), "GORACE=halt_on_error=0", "GOMAXPROCS=16", "VERIF_IS_RACE_BINARY=1")
	err := cmd.Run()
	out := stderr.String()
	// split by scenario markers
	cur := "?"
	races := map[string]string{}
	lines := strings.Split(out, "\n")
	for i, ln := range lines {
		if strings.HasPrefix(ln, "SCENARIO ") {
			cur = strings.TrimPrefix(ln, "SCENARIO ")
		}
		if strings.Contains(ln, "WARNING: DATA RACE") {
			end := i + 40
			if end > len(lines) {
				end = len(lines)
			}
			if _, ok := races[cur]; !ok {
				races[cur] = strings.Join(lines[i:end], "\n")
			}
		}
	}
	for _, ln := range lines {
		if strings.HasPrefix(ln, "SHARED-MISMATCH ") {
			parts := strings.SplitN(strings.TrimPrefix(ln, "SHARED-MISMATCH "), ":", 2)
			w.Viol("C09:shared-accessors:result:"+parts[0], "concurrent read-only accessor calls on a shared "+parts[0]+" returned a value different from the sequential one: "+clip(parts[len(parts)-1]), parts[0])
		}
	}
	n := strings.Count(stdout.String(), "RAN ")
	w.R.States += int64(n)
	w.R.Transitions += int64(n) * 20
	w.R.Evals += int64(n) * 20
	w.Count("race_scenarios", int64(n))
	if n == 0 {
		w.R.Notes = append(w.R.Notes, fmt.Sprintf("race pass produced no scenarios (err=%v): %s", err, tail(out, 300)))
	}
	for sc, rep := range races {
		site := raceSite(rep)
		w.Viol("C09:race:"+site, fmt.Sprintf("the Go race detector reports a data race in free-running scenario %s (%s):\n%s", sc, site, rep), map[string]string{"scenario": sc, "report": rep})
	}
	w.Sample(map[string]interface{}{"race_pass_scenarios": n, "repetitions": 20, "races": len(races)})
}

func raceSite(rep string) string {
	for _, ln := range strings.Split(rep, "\n") {
		ln = strings.TrimSpace(ln)
		if strings.HasPrefix(ln, "github.com/6tail/lunar-go/") {
			f := strings.TrimPrefix(ln, "github.com/6tail/lunar-go/")
			if i := strings.Index(f, "("); i > 0 && strings.Contains(f, ")") {
				return strings.TrimSuffix(f, "()")
			}
			return f
		}
	}
	return "unknown-site"
}

// sharedObjects: fresh instances of every object type whose read-only accessors may be called concurrently.
func sharedObjects() map[string]interface{} {
	calendar.CACHE_YEAR = nil // every call builds fresh instances (NewLunarYear would otherwise hand out the cached pointer)
	l := calendar.NewSolar(2020, 5, 22, 23, 30, 0).GetLunar()
	l2 := calendar.NewSolar(2033, 12, 22, 1, 0, 0).GetLunar()
	calendar.CACHE_YEAR = nil
	ly := calendar.NewLunarYear(2033)
	calendar.CACHE_YEAR = nil
	ec := l.GetEightChar()
	yun := ec.GetYun(1)
	dy := yun.GetDaYun()[2]
	return map[string]interface{}{
		"Lunar": l, "Lunar(leap-year-end)": l2, "Solar": l.GetSolar(), "LunarYear": ly, "LunarMonth": calendar.NewLunarMonthFromYm(2033, -11), "LunarTime": l.GetTime(),
		"EightChar": ec, "Yun": yun, "DaYun": dy, "LiuNian": dy.GetLiuNian()[3], "XiaoYun": dy.GetXiaoYun()[3], "LiuYue": dy.GetLiuNian()[3].GetLiuYue()[5],
		"Tao": l.GetTao(), "Foto": l.GetFoto(), "NineStar": l.GetDayNineStar(), "SolarWeek": calendar.NewSolarWeekFromYmd(2020, 5, 22, 1), "SolarMonth": calendar.NewSolarMonthFromYm(2020, 5),
		"JieQi": l.GetPrevJieQi(), "SolarSeason": calendar.NewSolarSeasonFromYm(2020, 5), "SolarHalfYear": calendar.NewSolarHalfYearFromYm(2020, 5), "SolarYear": calendar.NewSolarYearFromYear(2020),
		"Holiday": HolidayUtil.GetHoliday("2020-10-01"), "Fu": calendar.NewSolarFromYmd(2020, 7, 20).GetLunar().GetFu(), "ShuJiu": calendar.NewSolarFromYmd(2020, 12, 25).GetLunar().GetShuJiu(),
		"TaoFestival": calendar.NewTaoFestival("x", "y"), "FotoFestival": calendar.NewFotoFestival("a", "b", true, "c"),
	}
}

// racePassMain runs in the -race binary: every scenario's thread bodies on real goroutines, free-running.
func racePassMain(reps int, tier string, partOf string) {
	part, of, scn := 0, 1, 0
	fmt.Sscanf(partOf, "%d/%d", &part, &of)
	if of < 1 {
		of = 1
	}
	mine := func() bool { scn++; return (scn-1)%of == part }
	// read-only accessor sweeps on shared objects: 4 goroutines call every exported zero-argument method of one shared instance
	shallowSlices = true
	var objNames []string
	for name := range sharedObjects() {
		objNames = append(objNames, name)
	}
	sort.Strings(objNames)
	for _, name := range objNames {
		if !mine() {
			continue
		}
		fmt.Fprintf(os.Stderr, "SCENARIO shared-accessors[%s] [all zero-argument methods x 8 goroutines, rotated start]\n", name)
		n := reps * 2
		if strings.HasPrefix(name, "Lunar") && !strings.HasPrefix(name, "LunarYear") && !strings.HasPrefix(name, "LunarMonth") {
			n = reps / 2 // the Lunar digest is ~50x more expensive than the others
		}
		for r := 0; r < n; r++ {
			refObj := sharedObjects()[name]
			refRes := map[string]string{}
			for _, m := range callAll(refObj, nil) {
				refRes[m.Name] = m.Out
			}
			obj := sharedObjects()[name] // a second, untouched instance is shared by the goroutines
			v := reflect.ValueOf(obj)
			idx := zeroArgMethods(v.Type())
			const G = 8
			var wg sync.WaitGroup
			start := make(chan struct{})
			bad := make([]string, G)
			for g := 0; g < G; g++ {
				g := g
				wg.Add(1)
				go func() {
					defer wg.Done()
					<-start
					for k := range idx {
						i := idx[(k+g*len(idx)/G)%len(idx)] // rotated order: different goroutines reach a lazily written field at different moments
						name := v.Type().Method(i).Name
						if out := callOne(v, i, name).Out; out != refRes[name] && bad[g] == "" {
							bad[g] = name + ": " + clip(out) + " <> " + clip(refRes[name])
						}
						if k == len(idx)/2 && g%2 == 1 {
							// half of the goroutines also call the read-only methods that take small int arguments
							// (GetYun(gender), ...BySect(sect), ...) in the middle of their sweep
							callIntArgMethods(v, g)
						}
					}
				}()
			}
			close(start)
			wg.Wait()
			for _, b := range bad {
				if b != "" {
					fmt.Fprintf(os.Stderr, "SHARED-MISMATCH %s: %s\n", name, b)
				}
			}
		}
		fmt.Printf("RAN shared-accessors[%s]\n", name)
	}
	ops := c09SchedOps()
	for _, sc := range c09Scenarios() {
		if len(sc.threads) == 2 && len(sc.threads[0]) == 2 && tier != "thorough" {
			continue
		}
		if !mine() {
			continue
		}
		fmt.Fprintf(os.Stderr, "SCENARIO %s %v\n", sc.name, opNames(ops, sc.threads))
		for r := 0; r < reps; r++ {
			sh := &shared{}
			sh.l1 = calendar.NewSolar(2020, 5, 22, 23, 30, 0).GetLunar()
			sh.l2 = calendar.NewSolar(2021, 2, 3, 23, 10, 0).GetLunar()
			calendar.CACHE_YEAR = nil
			var wg sync.WaitGroup
			start := make(chan struct{})
			for _, th := range sc.threads {
				th := th
				wg.Add(1)
				go func() {
					defer wg.Done()
					<-start
					t := &thr{}
					for _, i := range th {
						safeDigest(func() string { return ops[i].f(sh, t) })
					}
				}()
			}
			close(start)
			wg.Wait()
		}
		fmt.Printf("RAN %s\n", sc.name)
	}
}

// ---------------------------------------------------------------------------------------------
// syntactic scan: package-level variables assigned inside function bodies

func c09Scan(w *W) {
	root := "/repo"
	found := map[string]bool{}
	fset := token.NewFileSet()
	filepath.Walk(root, func(p string, info os.FileInfo, err error) error {
		if err != nil {
			return nil
		}
		if info.IsDir() {
			if b := info.Name(); b == ".git" || b == "test" || b == "demo" {
				return filepath.SkipDir
			}
			return nil
		}
		if !strings.HasSuffix(p, ".go") || strings.HasSuffix(p, "_test.go") {
			return nil
		}
		return nil
	})
	dirs, _ := filepath.Glob(root + "/*")
	for _, dir := range dirs {
		st, err := os.Stat(dir)
		if err != nil || !st.IsDir() || filepath.Base(dir) == "test" || filepath.Base(dir) == "demo" || strings.HasPrefix(filepath.Base(dir), ".") {
			continue
		}
		pkgs, err := parser.ParseDir(fset, dir, func(fi os.FileInfo) bool { return !strings.HasSuffix(fi.Name(), "_test.go") }, 0)
		if err != nil {
			w.R.Notes = append(w.R.Notes, "scan: parse error in "+dir+": "+err.Error())
			continue
		}
		for _, pkg := range pkgs {
			globals := map[string]bool{}
			for _, f := range pkg.Files {
				for _, d := range f.Decls {
					if gd, ok := d.(*ast.GenDecl); ok && gd.Tok == token.VAR {
						for _, sp := range gd.Specs {
							for _, n := range sp.(*ast.ValueSpec).Names {
								globals[n.Name] = true
							}
						}
					}
				}
			}
			rootIdent := func(e ast.Expr) *ast.Ident {
				for {
					switch x := e.(type) {
					case *ast.Ident:
						return x
					case *ast.IndexExpr:
						e = x.X
					case *ast.SelectorExpr:
						e = x.X
					case *ast.StarExpr:
						e = x.X
					case *ast.ParenExpr:
						e = x.X
					default:
						return nil
					}
				}
			}
			for _, f := range pkg.Files {
				for _, d := range f.Decls {
					fd, ok := d.(*ast.FuncDecl)
					if !ok || fd.Body == nil {
						continue
					}
					// names declared locally (params, := , var) shadow globals: collect conservatively
					local := map[string]bool{}
					if fd.Recv != nil {
						for _, fl := range fd.Recv.List {
							for _, n := range fl.Names {
								local[n.Name] = true
							}
						}
					}
					for _, fl := range fd.Type.Params.List {
						for _, n := range fl.Names {
							local[n.Name] = true
						}
					}
					ast.Inspect(fd.Body, func(n ast.Node) bool {
						switch x := n.(type) {
						case *ast.AssignStmt:
							if x.Tok == token.DEFINE {
								for _, l := range x.Lhs {
									if id, ok := l.(*ast.Ident); ok {
										local[id.Name] = true
									}
								}
							}
						case *ast.ValueSpec:
							for _, id := range x.Names {
								local[id.Name] = true
							}
						case *ast.RangeStmt:
							if x.Tok == token.DEFINE {
								for _, e := range []ast.Expr{x.Key, x.Value} {
									if id, ok := e.(*ast.Ident); ok {
										local[id.Name] = true
									}
								}
							}
						}
						return true
					})
					ast.Inspect(fd.Body, func(n ast.Node) bool {
						var lhs []ast.Expr
						switch x := n.(type) {
						case *ast.AssignStmt:
							if x.Tok != token.DEFINE {
								lhs = x.Lhs
							}
						case *ast.IncDecStmt:
							lhs = []ast.Expr{x.X}
						}
						for _, l := range lhs {
							if id := rootIdent(l); id != nil && globals[id.Name] && !local[id.Name] {
								if _, isIdent := l.(*ast.Ident); isIdent || true {
									found[pkg.Name+"."+id.Name] = true
								}
							}
						}
						return true
					})
				}
			}
		}
	}
	var names []string
	for k := range found {
		names = append(names, k)
	}
	sort.Strings(names)
	expected := map[string]bool{"calendar.CACHE_YEAR": true, "HolidayUtil.dataInUse": true, "HolidayUtil.namesInUse": true}
	var extra []string
	for _, n := range names {
		if !expected[n] {
			extra = append(extra, n)
		}
	}
	w.R.States++
	w.R.Notes = append(w.R.Notes, "package-level variables assigned inside function bodies (go/ast scan of /repo): "+strings.Join(names, ", "))
	if len(extra) > 0 {
		w.R.Notes = append(w.R.Notes, "scan: variables outside the expected hidden-state set: "+strings.Join(extra, ", ")+" — the canonical digest may be incomplete; rely on the unreduced enumeration")
	}
	w.Sample(map[string]interface{}{"mutable_package_state": names})
}

// c09Purity: a read-only accessor must not write to the object it is called on (nor to objects reachable from it):
// such a write is unsynchronised, so two goroutines calling accessors on a shared object would race. Deterministic
// and exhaustive over all exported zero-argument methods of every shared object type: deep snapshot of the private
// state before and after each call on a fresh instance.
func c09Purity(w *W) {
	x := runSchedule(nil, []func(*thr){func(t *thr) {
		for name := range sharedObjects() {
			proto := sharedObjects()[name]
			v0 := reflect.ValueOf(proto)
			idx := zeroArgMethods(v0.Type())
			for _, i := range idx {
				obj := sharedObjects()[name]
				v := reflect.ValueOf(obj)
				before := deepSnap(v, 4, map[uintptr]bool{})
				hs0 := hiddenState()
				mname := v.Type().Method(i).Name
				p0 := t.points
				tb0 := exportedTablesHashNow()
				callOne(v, i, mname)
				after := deepSnap(v, 4, map[uintptr]bool{})
				if tb1 := exportedTablesHashNow(); tb1 != tb0 {
					w.Viol("C09:accessor-writes-package-tables:"+name+"."+mname, fmt.Sprintf("read-only accessor %s.%s changed an exported package-level table or the holiday record set: every later call in the process reads the changed table", name, mname), name+"."+mname)
				}
				w.R.Transitions++
				w.R.Traces++
				w.R.Evals++
				if before != after && t.points != p0 {
					// the accessor performed lock operations: the write may be properly synchronised (e.g. sync.Once);
					// not judged here — the free-running race pass over the same accessors decides
					w.R.Notes = append(w.R.Notes, fmt.Sprintf("accessor %s.%s writes object state but also synchronises; left to the race pass", name, mname))
					w.R.Undecided++
				} else if before != after {
					w.Viol("C09:accessor-writes-object:"+name+"."+mname, fmt.Sprintf("read-only accessor %s.%s changed the private state of the object it was called on (no lock operation occurred during the call, so the write is unsynchronised: concurrent callers on a shared %s race): %s", name, mname, name, firstDiffWords(strings.ReplaceAll(before, ";", " "), strings.ReplaceAll(after, ";", " "))), name+"."+mname)
				}
				_ = hs0
			}
			// methods with small int / bool arguments (Next(n), Next(n, onlyWorkday), GetYun(gender), ...BySect(sect), ...) do
			// not write to their receiver either
			{
				obj := sharedObjects()[name]
				v := reflect.ValueOf(obj)
				mnames, calls := smallArgCalls(v)
				for k, call := range calls {
					before := deepSnap(v, 4, map[uintptr]bool{})
					p0 := t.points
					call()
					after := deepSnap(v, 4, map[uintptr]bool{})
					w.R.Transitions++
					w.R.Evals++
					if before != after && t.points == p0 {
						w.Viol("C09:method-writes-receiver:"+name+"."+mnames[k], fmt.Sprintf("%s.%s changed the private state of the object it was called on (no lock operation occurred during the call): %s", name, mnames[k], firstDiffWords(strings.ReplaceAll(before, ";", " "), strings.ReplaceAll(after, ";", " "))), name+"."+mnames[k])
					}
				}
			}
			w.R.States++
		}
	}}, nil, nil, resetHidden)
	if x.deadlock {
		w.Viol("C09:purity:blocked", "an accessor left the library blocked", nil)
	}
	// option state set through one handle does not show through another: objects returned by navigation, conversion
	// and the constructors are handles of their own (the only per-object option is the eight-character convention)
	for _, mo := range [][6]int{{2023, 5, 9, 23, 30, 0}, {2020, 5, 22, 23, 59, 59}, {1582, 10, 15, 23, 0, 0}} {
		derive := map[string]func(l *calendar.Lunar) *calendar.EightChar{
			"l.Next(0)":               func(l *calendar.Lunar) *calendar.EightChar { return l.Next(0).GetEightChar() },
			"l.Next(1).Next(-1)":      func(l *calendar.Lunar) *calendar.EightChar { return l.Next(1).Next(-1).GetEightChar() },
			"l.GetSolar().GetLunar()": func(l *calendar.Lunar) *calendar.EightChar { return l.GetSolar().GetLunar().GetEightChar() },
			"NewLunarFromSolar(l.GetSolar())": func(l *calendar.Lunar) *calendar.EightChar {
				return calendar.NewLunarFromSolar(l.GetSolar()).GetEightChar()
			},
			"NewEightChar(l)": func(l *calendar.Lunar) *calendar.EightChar { return calendar.NewEightChar(l) },
			"l.GetSolar().NextDay(0).GetLunar()": func(l *calendar.Lunar) *calendar.EightChar {
				return l.GetSolar().NextDay(0).GetLunar().GetEightChar()
			},
		}
		for name, f := range derive {
			msg, p := try(func() {
				l := calendar.NewSolar(mo[0], mo[1], mo[2], mo[3], mo[4], mo[5]).GetLunar()
				before := fmt.Sprint(l.GetEightChar().GetSect(), l.GetEightChar().String(), l.GetBaZi())
				f(l).SetSect(1)
				after := fmt.Sprint(l.GetEightChar().GetSect(), l.GetEightChar().String(), l.GetBaZi())
				if before != after {
					w.Viol("C09:option-leaks-between-handles:"+name, fmt.Sprintf("setting the convention on the eight characters of %s changed what l itself answers at %v: %s -> %s", name, mo, before, after), name)
				}
				l2 := calendar.NewSolar(mo[0], mo[1], mo[2], mo[3], mo[4], mo[5]).GetLunar()
				l2.GetEightChar().SetSect(1)
				if name != "NewEightChar(l)" {
					if g := f(l2).GetSect(); g != 2 {
						w.Viol("C09:option-leaks-between-handles:"+name+":inherited", fmt.Sprintf("%s of a date whose convention was set to 1 comes with convention %d instead of the default 2 (at %v)", name, g, mo), name)
					}
				}
				w.R.Evals += 2
			})
			if p {
				w.Viol("C09:option-leaks-between-handles:panic:"+name, msg, name)
			}
		}
	}
	// setters on returned value objects change that object only: after every setter of a Fu / ShuJiu / JieQi / Holiday
	// obtained from one date has been called with foreign values, the same accessor on a fresh object of the same date
	// and of the same date one year later answers as before
	{
		type src struct {
			name string
			get  func(y int) interface{}
		}
		srcs := []src{
			{"Lunar.GetShuJiu", func(y int) interface{} { return calendar.NewSolarFromYmd(y, 12, 25).GetLunar().GetShuJiu() }},
			{"Lunar.GetFu", func(y int) interface{} { return calendar.NewSolarFromYmd(y, 7, 25).GetLunar().GetFu() }},
			{"Lunar.GetPrevJieQi", func(y int) interface{} { return calendar.NewSolarFromYmd(y, 7, 25).GetLunar().GetPrevJieQi() }},
			{"Lunar.GetNextJie", func(y int) interface{} { return calendar.NewSolarFromYmd(y, 7, 25).GetLunar().GetNextJie() }},
			{"Lunar.GetCurrentJieQi", func(y int) interface{} { return calendar.NewSolarFromYmd(y, 6, 21).GetLunar().GetCurrentJieQi() }},
			{"HolidayUtil.GetHoliday", func(y int) interface{} { return HolidayUtil.GetHoliday(fmt.Sprintf("%d-10-01", y)) }},
			{"HolidayUtil.GetHolidaysByYm[0]", func(y int) interface{} {
				l := HolidayUtil.GetHolidaysByYm(y, 10)
				if l.Len() == 0 {
					return nil
				}
				return l.Front().Value
			}},
		}
		dig := func(o interface{}) string {
			if o == nil || (reflect.ValueOf(o).Kind() == reflect.Ptr && reflect.ValueOf(o).IsNil()) {
				return "nil"
			}
			return digestObject(o, nil)
		}
		for _, sc := range srcs {
			msg, p := try(func() {
				before := dig(sc.get(2020)) + " / " + dig(sc.get(2021))
				victim := sc.get(2020)
				if victim == nil {
					return
				}
				v := reflect.ValueOf(victim)
				for i := 0; i < v.Type().NumMethod(); i++ {
					m := v.Type().Method(i)
					if !strings.HasPrefix(m.Name, "Set") || m.Type.NumIn() != 2 {
						continue
					}
					var arg reflect.Value
					switch m.Type.In(1).Kind() {
					case reflect.String:
						arg = reflect.ValueOf("1999-01-01")
					case reflect.Int:
						arg = reflect.ValueOf(77)
					case reflect.Bool:
						arg = reflect.ValueOf(true)
					case reflect.Ptr:
						if m.Type.In(1) == reflect.TypeOf(&calendar.Solar{}) {
							arg = reflect.ValueOf(calendar.NewSolarFromYmd(1999, 1, 1))
						}
					}
					if arg.IsValid() {
						v.Method(i).Call([]reflect.Value{arg})
						w.R.Evals++
					}
				}
				after := dig(sc.get(2020)) + " / " + dig(sc.get(2021))
				if before != after {
					w.Viol("C09:setter-leaks-to-other-objects:"+sc.name, fmt.Sprintf("after the setters of one object returned by %s were called, fresh objects from %s answer differently: %s", sc.name, sc.name, firstDiffWords(before, after)), sc.name)
				}
			})
			if p {
				w.Viol("C09:setter-leaks-to-other-objects:panic:"+sc.name, msg, sc.name)
			}
		}
	}
	w.Sample(map[string]interface{}{"object_types": len(sharedObjects()), "check": "deep private-state snapshot before/after every exported zero-argument method"})
}

// c09AdjCache: systematic history independence at the year-table level. For every year Y of the year set the same
// calls are made with the one-slot cache primed by a call for Y-1, Y+1 and Y+2 (the histories that matter for a
// cache of neighbouring, overlapping tables) and must return what they return on the pristine state — including
// whether a lunar (year, month, day) triple is accepted at all.
func c09AdjCache(w *W) {
	for _, r := range w.Shard.Ranges {
		for y := r[0]; y <= r[1]; y++ {
			type call struct {
				name string
				f    func() string
			}
			var calls []call
			yy := y
			calls = append(calls, call{fmt.Sprintf("NewLunarYear(%d)", y), func() string { return yearDigest(calendar.NewLunarYear(yy)) }})
			for m := -12; m <= 13; m++ {
				if m == 0 {
					continue
				}
				for _, d := range []int{1, 29, 30, 31} {
					m, d := m, d
					calls = append(calls, call{fmt.Sprintf("NewLunarFromYmd(%d,%d,%d)", y, m, d), func() string { return fieldDigest(calendar.NewLunarFromYmd(yy, m, d)) }})
				}
				mm := m
				calls = append(calls, call{fmt.Sprintf("NewLunarMonthFromYm(%d,%d).Next(+-1)", y, m), func() string {
					lm := calendar.NewLunarMonthFromYm(yy, mm)
					if lm == nil {
						return "nil"
					}
					return monthDigest(lm.Next(1)) + " " + monthDigest(lm.Next(-1))
				}})
			}
			for m := 1; m <= 12; m++ {
				m := m
				calls = append(calls, call{fmt.Sprintf("NewSolarFromYmd(%d,%d,1).GetLunar()", y, m), func() string { return fieldDigest(calendar.NewSolarFromYmd(yy, m, 1).GetLunar()) }})
			}
			// pristine references
			refs := make([]string, len(calls))
			body := func(prime int, out []string) func(t *thr) {
				return func(t *thr) {
					for i, c := range calls {
						calendar.CACHE_YEAR = nil
						if prime != 0 {
							safeDigest(func() string { calendar.NewLunarYear(yy + prime); return "" })
						}
						out[i] = safeDigest(c.f)
					}
				}
			}
			x := runSchedule(nil, []func(*thr){body(0, refs)}, nil, nil, resetHidden)
			if x.deadlock {
				w.Viol(fmt.Sprintf("C09:adjcache:blocked:%d", y), "calls for one year left the library blocked", y)
				continue
			}
			w.R.States++
			for _, prime := range []int{-1, 1, 2} {
				if y+prime < 1 || y+prime > 9999 {
					continue
				}
				got := make([]string, len(calls))
				x := runSchedule(nil, []func(*thr){body(prime, got)}, nil, nil, resetHidden)
				if x.deadlock {
					w.Viol(fmt.Sprintf("C09:adjcache:blocked:%d", y), "calls for one year left the library blocked", y)
					continue
				}
				for i := range calls {
					w.R.Transitions++
					w.R.Traces++
					w.R.Evals++
					if got[i] != refs[i] {
						w.R.Nontrivial++
						w.Viol(fmt.Sprintf("C09:history:after-NewLunarYear(Y%+d):%s", prime, calls[i].name), fmt.Sprintf("after a call for lunar year %d, %s returns a different value than on the pristine state: %s", y+prime, calls[i].name, firstDiffWords(got[i], refs[i])), []string{fmt.Sprintf("NewLunarYear(%d)", y+prime), calls[i].name})
					}
				}
			}
			// objects that outlive a change of the hidden state: the receiver is built on the pristine state, the cache is
			// then primed with a neighbouring year, and only then is the object used (navigation, conversion, accessors)
			type ocall struct {
				name string
				mk   func() interface{}
				use  func(o interface{}) string
			}
			var ocalls []ocall
			for m := -12; m <= 12; m++ {
				if m == 0 {
					continue
				}
				mm := m
				// one navigation or accessor per history: a second call in the same history would already see the hidden
				// state left by the first
				for _, n := range []int{1, -1, 2, -2, 12, -12, 0} {
					n := n
					ocalls = append(ocalls, ocall{fmt.Sprintf("m := NewLunarMonthFromYm(%d,%d); ...; m.Next(%d)", y, m, n),
						func() interface{} { return calendar.NewLunarMonthFromYm(yy, mm) },
						func(o interface{}) string {
							lm := o.(*calendar.LunarMonth)
							if lm == nil {
								return "nil"
							}
							if n == 0 {
								return lm.GetGanZhi() + lm.GetNineStar().String() + lm.String()
							}
							r := lm.Next(n)
							if r == nil {
								return "nil"
							}
							return monthDigest(r) + " " + r.GetGanZhi()
						}})
				}
				for _, n := range []int{1, -1, -30, 30, 0} {
					n := n
					ocalls = append(ocalls, ocall{fmt.Sprintf("l := NewLunarFromYmd(%d,%d,1); ...; l.Next(%d)", y, m, n),
						func() interface{} {
							var l *calendar.Lunar
							try(func() { l = calendar.NewLunarFromYmd(yy, mm, 1) })
							return l
						},
						func(o interface{}) string {
							l := o.(*calendar.Lunar)
							if l == nil {
								return "nil"
							}
							if n == 0 {
								return l.GetSolar().ToYmdHms() + " " + l.ToFullString()
							}
							return fieldDigest(l.Next(n))
						}})
				}
			}
			orefs := make([]string, len(ocalls))
			obody := func(prime int, out []string) func(t *thr) {
				return func(t *thr) {
					for i, c := range ocalls {
						calendar.CACHE_YEAR = nil
						var obj interface{}
						safeDigest(func() string { obj = c.mk(); return "" })
						if prime != 0 {
							safeDigest(func() string { calendar.NewLunarYear(yy + prime); return "" })
						}
						out[i] = safeDigest(func() string { return c.use(obj) })
					}
				}
			}
			if xo := runSchedule(nil, []func(*thr){obody(0, orefs)}, nil, nil, resetHidden); xo.deadlock {
				w.Viol(fmt.Sprintf("C09:adjcache:blocked:%d", y), "calls for one year left the library blocked", y)
				continue
			}
			for _, prime := range []int{-1, 1, 2} {
				if y+prime < 1 || y+prime > 9999 {
					continue
				}
				got := make([]string, len(ocalls))
				if xo := runSchedule(nil, []func(*thr){obody(prime, got)}, nil, nil, resetHidden); xo.deadlock {
					w.Viol(fmt.Sprintf("C09:adjcache:blocked:%d", y), "calls for one year left the library blocked", y)
					continue
				}
				for i := range ocalls {
					w.R.Transitions++
					w.R.Evals++
					if got[i] != orefs[i] {
						w.R.Nontrivial++
						w.Viol(fmt.Sprintf("C09:history:object-then-NewLunarYear(Y%+d):%s", prime, ocalls[i].name), fmt.Sprintf("an object built first and used after a call for lunar year %d answers differently than without that call: %s: %s", y+prime, ocalls[i].name, firstDiffWords(got[i], orefs[i])), []string{ocalls[i].name, fmt.Sprintf("NewLunarYear(%d)", y+prime)})
					}
				}
			}
			if y%97 == 24 {
				w.Sample(map[string]interface{}{"year": y, "calls": len(calls), "object_calls": len(ocalls), "cache_primed_with": []int{y - 1, y + 1, y + 2}})
			}
		}
	}
}

// c09Orders: order independence of a broad probe over many states inside ONE process. The same probe (civil strings,
// weekday, sign, festivals, lunar rendering, pillars, terms, Taoist/Buddhist strings, day star, holiday, pay rate) is
// evaluated on every day of a year subset in several visiting orders chosen to make inputs that share a coarse key
// adjacent: ascending (reference), descending, by (civil month, day, year), by (lunar month, day, year) and by
// (year mod 400, month, day, year). A library whose answers depend only on the arguments gives identical answers in
// every order; a hidden cache keyed by a projection of the input (lunar year instead of civil year, year mod 400,
// month and day without the year) does not. Shards are residue classes of the year mod 4, so years 400, 100, 60, 28
// or 12 apart meet in one process.
func c09Orders(w *W) {
	var o, ord int
	fmt.Sscanf(w.Shard.Arg, "%d,%d", &o, &ord)
	in := map[int]bool{}
	for _, r := range [][2]int{{1, 30}, {236, 240}, {1578, 1586}, {1898, 1902}, {1995, 2035}, {9994, 9998}} {
		for y := r[0]; y <= r[1]; y++ {
			in[y] = true
		}
	}
	for y := 100; y <= 2400; y += 100 {
		in[y] = true
	}
	for _, y := range []int{1182, 1582, 1982, 2382, 1500, 1900, 2300, 1984, 2044, 2024, 2052, 2001, 2012, 2020, 2023} {
		in[y] = true
	}
	if w.Thorough() {
		for _, y := range quickYears(w.Shard.Seed, 9998) {
			in[y] = true
		}
		for y := 1; y <= 9998; y += 5 {
			in[y] = true
		}
	}
	var js []int
	for y := range in {
		if y%4 != o || y > 9998 {
			continue
		}
		for j := r1JDN(y, 1, 1); j <= r1JDN(y, 12, 31); j++ {
			js = append(js, j)
		}
	}
	sort.Ints(js)
	type st struct{ j, y, m, d, lm, ld int }
	probe := func(j int) string {
		y, m, d := r1FromJDN(j)
		return safeDigest(func() string {
			s := calendar.NewSolarFromYmd(y, m, d)
			l := s.GetLunar()
			var sb strings.Builder
			sb.WriteString(s.ToYmd() + "|" + fmt.Sprint(s.GetWeek()) + "|" + s.GetXingZuo() + "|" + render1(s.GetFestivals()) + "|")
			sb.WriteString(l.String() + "|" + l.GetYearInGanZhiExact() + l.GetMonthInGanZhiExact() + l.GetDayInGanZhi() + "|" + l.GetJieQi() + "|" + render1(l.GetFestivals()) + render1(l.GetOtherFestivals()) + "|")
			sb.WriteString(l.GetTao().ToString() + "|" + l.GetFoto().ToString() + "|" + l.GetHou() + "|" + fmt.Sprint(l.GetPrevJie().GetSolar().ToYmdHms()) + "|")
			if w.Thorough() || j%7 == 0 {
				sb.WriteString(l.GetDayNineStar().String() + "|" + fmt.Sprint(s.GetSalaryRate()) + "|")
			}
			if h := HolidayUtil.GetHolidayByYmd(y, m, d); h != nil {
				sb.WriteString(h.String())
			}
			return sb.String()
		})
	}
	names := []string{"ascending", "descending", "by civil month, day, year", "by lunar month, day, year", "by year mod 400, month, day, year"}
	// the sort keys use integer civil fields and the lunar month/day from the integer-free R1 side where possible;
	// lunar month/day come from a throw-away conversion in a scheduler thread of their own
	states := make([]st, len(js))
	runSchedule(nil, []func(*thr){func(t *thr) {
		for i, j := range js {
			y, m, d := r1FromJDN(j)
			lm, ld := 0, 0
			if ord == 3 {
				safeDigest(func() string {
					l := calendar.NewSolarFromYmd(y, m, d).GetLunar()
					lm, ld = l.GetMonth(), l.GetDay()
					return ""
				})
			}
			states[i] = st{j, y, m, d, lm, ld}
		}
	}}, nil, nil, resetHidden)
	less := []func(a, b st) bool{
		func(a, b st) bool { return a.j < b.j },
		func(a, b st) bool { return a.j > b.j },
		func(a, b st) bool { return a.m*40000000+a.d*100000+a.y < b.m*40000000+b.d*100000+b.y },
		func(a, b st) bool { return (a.lm+20)*40000000+a.ld*100000+a.y < (b.lm+20)*40000000+b.ld*100000+b.y },
		func(a, b st) bool {
			return (a.y%400)*100000000+a.m*1000000+a.d*10000+a.y < (b.y%400)*100000000+b.m*1000000+b.d*10000+b.y
		},
	}[ord]
	sort.SliceStable(states, func(a, b int) bool { return less(states[a], states[b]) })
	// the probe pass itself, in this shard's order, in one thread of a fresh scheduler run (hidden state reset first);
	// note: for order 3 the throw-away conversions above ran before the reset of the year cache but any *other* hidden
	// state they created persists — which is fine: it only adds history
	x := runSchedule(nil, []func(*thr){func(t *thr) {
		for _, s := range states {
			v := probe(s.j)
			w.R.Transitions++
			w.R.Traces++
			w.R.Evals++
			w.FDCheck("C09:order-independence", r1Ymd(s.j), hashStr(v), names[ord])
		}
	}}, nil, nil, resetHidden)
	if x.deadlock {
		w.Viol("C09:order:blocked", "the probe sweep left the library blocked", nil)
	}
	w.R.States += int64(len(js))
	w.R.Nontrivial += int64(len(js))
	if ord == 0 {
		w.Sample(map[string]interface{}{"residue_class_mod_4": o, "days": len(js), "orders_each_in_its_own_process": names})
	}
}
