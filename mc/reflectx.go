package main

// Reflection helpers: call every exported zero-argument method of an object and render results
// deterministically (used by C01 path independence, C08 totality, C09 digests, C11 routes).

import (
	"container/list"
	"fmt"
	"hash/fnv"
	"reflect"
	"sort"
	"strings"
	"sync"
)

type MRes struct {
	Name     string
	Out      string
	Panicked bool
	Vals     []reflect.Value
}

var methodCache = map[reflect.Type][]int{}
var methodCacheMu sync.RWMutex // the race pass calls the reflection helpers from several goroutines

// shallowSlices: render slices of object pointers as a count (set by checks that visit the elements themselves)
var shallowSlices = false

func zeroArgMethods(t reflect.Type) []int {
	methodCacheMu.RLock()
	idx0, ok0 := methodCache[t]
	methodCacheMu.RUnlock()
	if ok0 {
		return idx0
	}
	methodCacheMu.Lock()
	defer methodCacheMu.Unlock()
	var idx []int
	for i := 0; i < t.NumMethod(); i++ {
		m := t.Method(i)
		if m.Type.NumIn() == 1 && m.Type.NumOut() >= 1 {
			idx = append(idx, i)
		}
	}
	methodCache[t] = idx
	return idx
}

// callIntArgMethods calls every exported method whose parameters are one or two ints and which returns something
// (GetYun(gender), Get...BySect(sect), Next(n), GetDaYunBy(n), ...) with small argument values; panics are recovered.
// Used by the free-running race pass next to the zero-argument accessors: such methods are read-only too.
func callIntArgMethods(v reflect.Value, rot int) {
	t := v.Type()
	intT := reflect.TypeOf(0)
	var calls []func()
	for i := 0; i < t.NumMethod(); i++ {
		m := t.Method(i)
		n := m.Type.NumIn() - 1
		if n < 1 || n > 2 || m.Type.NumOut() < 1 || strings.HasPrefix(m.Name, "Set") {
			continue
		}
		ok := true
		for k := 1; k <= n; k++ {
			if m.Type.In(k) != intT {
				ok = false
			}
		}
		if !ok {
			continue
		}
		mv := v.Method(i)
		for _, a := range []int{1, 2, 0} {
			if n == 1 {
				a := a
				calls = append(calls, func() { mv.Call([]reflect.Value{reflect.ValueOf(a)}) })
			} else {
				for _, b := range []int{1, 2} {
					a, b := a, b
					calls = append(calls, func() { mv.Call([]reflect.Value{reflect.ValueOf(a), reflect.ValueOf(b)}) })
				}
			}
		}
	}
	for k := range calls {
		f := calls[(k+rot)%len(calls)]
		func() {
			defer func() { recover() }()
			f()
		}()
	}
}

// render prints a value deterministically. Pointers to library structs are rendered shallowly
// (type + String()/ToFullString()) so that digests do not recurse without bound.
func render(v reflect.Value) string {
	if !v.IsValid() {
		return "<invalid>"
	}
	switch v.Kind() {
	case reflect.Ptr, reflect.Interface:
		if v.IsNil() {
			return "nil"
		}
		if l, ok := v.Interface().(*list.List); ok {
			var parts []string
			for e := l.Front(); e != nil; e = e.Next() {
				parts = append(parts, render(reflect.ValueOf(e.Value)))
			}
			return "[" + strings.Join(parts, ",") + "]"
		}
		if v.Kind() == reflect.Interface {
			return render(v.Elem())
		}
		t := v.Type()
		if m, ok := t.MethodByName("ToFullString"); ok && m.Type.NumIn() == 1 {
			return t.Elem().Name() + "{" + safeCallString(v, "ToFullString") + "}"
		}
		if m, ok := t.MethodByName("ToYmdHms"); ok && m.Type.NumIn() == 1 {
			return t.Elem().Name() + "{" + safeCallString(v, "ToYmdHms") + "}"
		}
		if _, ok := t.MethodByName("String"); ok {
			return t.Elem().Name() + "{" + safeCallString(v, "String") + "}"
		}
		// generic: shallow view (getters returning basic kinds only; no recursion into object graphs)
		return t.Elem().Name() + "{" + shallowDigest(v) + "}"
	case reflect.Slice, reflect.Array:
		if v.Type().Elem().Kind() == reflect.Ptr && v.Type().Elem().Elem().Kind() == reflect.Struct && shallowSlices {
			return fmt.Sprintf("[%d x %s]", v.Len(), v.Type().Elem().Elem().Name())
		}
		var parts []string
		for i := 0; i < v.Len(); i++ {
			parts = append(parts, render(v.Index(i)))
		}
		return "[" + strings.Join(parts, ",") + "]"
	case reflect.Map:
		keys := v.MapKeys()
		strs := make([]string, len(keys))
		for i, k := range keys {
			strs[i] = fmt.Sprint(k.Interface()) + "=" + render(v.MapIndex(k))
		}
		sort.Strings(strs)
		return "{" + strings.Join(strs, ",") + "}"
	case reflect.Float64, reflect.Float32:
		return fmt.Sprintf("%.9f", v.Float())
	default:
		return fmt.Sprint(v.Interface())
	}
}

func safeCallString(v reflect.Value, name string) (out string) {
	defer func() {
		if r := recover(); r != nil {
			out = "PANIC:" + fmt.Sprint(r)
		}
	}()
	r := v.MethodByName(name).Call(nil)
	return fmt.Sprint(r[0].Interface())
}

// callAll calls every exported zero-argument method with results; skip by name.
func callAll(obj interface{}, skip map[string]bool) []MRes {
	v := reflect.ValueOf(obj)
	t := v.Type()
	var out []MRes
	for _, i := range zeroArgMethods(t) {
		name := t.Method(i).Name
		if skip != nil && skip[name] {
			continue
		}
		out = append(out, callOne(v, i, name))
	}
	return out
}

func callOne(v reflect.Value, i int, name string) (res MRes) {
	res.Name = name
	defer func() {
		if r := recover(); r != nil {
			res.Panicked = true
			res.Out = "PANIC:" + fmt.Sprint(r)
		}
	}()
	rs := v.Method(i).Call(nil)
	res.Vals = rs
	parts := make([]string, len(rs))
	for k, r := range rs {
		parts[k] = render(r)
	}
	res.Out = strings.Join(parts, ";")
	return
}

func digestObject(obj interface{}, skip map[string]bool) string {
	var sb strings.Builder
	for _, r := range callAll(obj, skip) {
		sb.WriteString(r.Name)
		sb.WriteByte('=')
		sb.WriteString(r.Out)
		sb.WriteByte('\n')
	}
	return sb.String()
}

func hashStr(s string) string {
	h := fnv.New64a()
	h.Write([]byte(s))
	return fmt.Sprintf("%016x", h.Sum64())
}

// firstDiff reports the first line on which two digests differ.
func firstDiff(a, b string) string {
	la, lb := strings.Split(a, "\n"), strings.Split(b, "\n")
	for i := 0; i < len(la) && i < len(lb); i++ {
		if la[i] != lb[i] {
			x, y := la[i], lb[i]
			if len(x) > 160 {
				x = x[:160]
			}
			if len(y) > 160 {
				y = y[:160]
			}
			return x + "  <>  " + y
		}
	}
	return fmt.Sprintf("length %d vs %d", len(la), len(lb))
}

func render1(x interface{}) string { return render(reflect.ValueOf(x)) }

func shallowDigest(v reflect.Value) string {
	t := v.Type()
	var sb strings.Builder
	for _, i := range zeroArgMethods(t) {
		m := t.Method(i)
		if m.Type.NumOut() != 1 {
			continue
		}
		switch m.Type.Out(0).Kind() {
		case reflect.Int, reflect.String, reflect.Bool, reflect.Float64:
			r := callOne(v, i, m.Name)
			sb.WriteString(m.Name + "=" + r.Out + ";")
		}
	}
	return sb.String()
}

// deepSnap renders the complete private state of a value (unexported fields included) to a fixed depth:
// used to detect read-only accessors that write to the object they are called on.
func deepSnap(v reflect.Value, depth int, seen map[uintptr]bool) string {
	if !v.IsValid() {
		return "<invalid>"
	}
	switch v.Kind() {
	case reflect.Ptr:
		if v.IsNil() {
			return "nil"
		}
		p := v.Pointer()
		if depth <= 0 || seen[p] {
			return fmt.Sprintf("ptr@%x", p)
		}
		seen[p] = true
		return fmt.Sprintf("&@%x{%s}", p, deepSnap(v.Elem(), depth-1, seen))
	case reflect.Interface:
		if v.IsNil() {
			return "nil"
		}
		return deepSnap(v.Elem(), depth, seen)
	case reflect.Struct:
		var sb strings.Builder
		t := v.Type()
		for i := 0; i < v.NumField(); i++ {
			sb.WriteString(t.Field(i).Name + ":" + deepSnap(v.Field(i), depth, seen) + ";")
		}
		return sb.String()
	case reflect.Slice:
		if v.IsNil() {
			return "nil"
		}
		var sb strings.Builder
		fmt.Fprintf(&sb, "[%d@%x:", v.Len(), v.Pointer())
		for i := 0; i < v.Len() && i < 64; i++ {
			sb.WriteString(deepSnap(v.Index(i), depth-1, seen) + ",")
		}
		return sb.String() + "]"
	case reflect.Array:
		var sb strings.Builder
		for i := 0; i < v.Len(); i++ {
			sb.WriteString(deepSnap(v.Index(i), depth-1, seen) + ",")
		}
		return "[" + sb.String() + "]"
	case reflect.Map:
		if v.IsNil() {
			return "nil"
		}
		var parts []string
		it := v.MapRange()
		for it.Next() {
			parts = append(parts, deepSnap(it.Key(), 0, seen)+"="+deepSnap(it.Value(), depth-1, seen))
		}
		sort.Strings(parts)
		return fmt.Sprintf("map@%x{%s}", v.Pointer(), strings.Join(parts, ","))
	case reflect.String:
		return strconvQuote(v.String())
	case reflect.Bool:
		return fmt.Sprint(v.Bool())
	case reflect.Int, reflect.Int8, reflect.Int16, reflect.Int32, reflect.Int64:
		return fmt.Sprint(v.Int())
	case reflect.Uint, reflect.Uint8, reflect.Uint16, reflect.Uint32, reflect.Uint64, reflect.Uintptr:
		return fmt.Sprint(v.Uint())
	case reflect.Float32, reflect.Float64:
		return fmt.Sprintf("%.9f", v.Float())
	case reflect.Func, reflect.Chan, reflect.UnsafePointer:
		return fmt.Sprintf("%s@%x", v.Kind(), v.Pointer())
	}
	return v.Kind().String()
}

func strconvQuote(s string) string {
	if len(s) > 64 {
		return fmt.Sprintf("%q…%d", s[:64], len(s))
	}
	return fmt.Sprintf("%q", s)
}

// smallArgCalls lists calls of every exported non-setter method whose one or two parameters are ints or bools and which
// returns something (Next(n), Next(n, onlyWorkday), GetYun(gender), ...BySect(sect), GetDaYunBy(n), ...) with small
// argument values. Such methods are read-only with respect to their receiver.
func smallArgCalls(v reflect.Value) (names []string, calls []func()) {
	t := v.Type()
	intT, boolT := reflect.TypeOf(0), reflect.TypeOf(true)
	for i := 0; i < t.NumMethod(); i++ {
		m := t.Method(i)
		n := m.Type.NumIn() - 1
		if n < 1 || n > 2 || m.Type.NumOut() < 1 || strings.HasPrefix(m.Name, "Set") {
			continue
		}
		argSets := [][]reflect.Value{{}}
		ok := true
		for k := 1; k <= n; k++ {
			var vals []reflect.Value
			switch m.Type.In(k) {
			case intT:
				vals = []reflect.Value{reflect.ValueOf(1), reflect.ValueOf(3), reflect.ValueOf(-2), reflect.ValueOf(0)}
			case boolT:
				vals = []reflect.Value{reflect.ValueOf(true), reflect.ValueOf(false)}
			default:
				ok = false
			}
			var next [][]reflect.Value
			for _, a := range argSets {
				for _, x := range vals {
					next = append(next, append(append([]reflect.Value{}, a...), x))
				}
			}
			argSets = next
		}
		if !ok {
			continue
		}
		mv := v.Method(i)
		for _, args := range argSets {
			args := args
			desc := m.Name + "("
			for k, a := range args {
				if k > 0 {
					desc += ","
				}
				desc += fmt.Sprint(a.Interface())
			}
			names = append(names, desc+")")
			calls = append(calls, func() {
				defer func() { recover() }()
				mv.Call(args)
			})
		}
	}
	return
}
