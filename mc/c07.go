package main

// C07 — constructors accept exactly what exists; chains of stepping/conversion calls never build
// an invalid object. E1 (argument boxes per year) + E2 (BFS over call chains).

import (
	"fmt"
	"sort"
	"time"

	"github.com/6tail/lunar-go/calendar"
)

func init() {
	register(&Check{
		ID:     "C07",
		Rule:   "E1: for every year in the year set, NewSolar on month -1..14 x day -1..33 (+ hour/minute/second edge values on one valid and one invalid day per month) against R1 validity; NewLunar/NewLunarTime/NewTao/NewFoto on month -12..13 x day 0..31 against the image set of the civil sweep of the neighbouring civil years; E2: breadth-first search over chains of stepping/conversion calls from seed dates, de-duplicated on (type,y,m,d,h,mi,s), validity invariant on every produced object. non-trivial = argument tuples within one unit of a validity boundary, and BFS transitions that change the month",
		Assume: []string{"R1 validity predicate", "lunar image set is taken from Solar.GetLunar over every civil day of years Y-1..Y+1 (that this map is a bijection is C01's job)"},
		Shards: func(tier string, seed int64) []Shard {
			sh := yearShardsWith(tier, seed, 9998, "box", []int{1901, 1969, 1970, 1990, 2001, 2010, 2011, 2022, 2038}) // years of the special time.Time values and of the named-zone sweep
			sh = append(sh, Shard{Kind: "chains", Tier: tier, Seed: seed})
			return sh
		},
		Run:           runC07,
		MinNontrivial: 100,
	})
}

func runC07(w *W) {
	if w.Shard.Kind == "chains" {
		runC07Chains(w)
		return
	}
	for _, r := range w.Shard.Ranges {
		for y := r[0]; y <= r[1]; y++ {
			c07Year(w, y)
		}
	}
}

func c07Year(w *W, y int) {
	w.R.States++
	// ---- civil box
	for m := -1; m <= 14; m++ {
		for d := -1; d <= 33; d++ {
			want := r1Valid(y, m, d)
			_, p := try(func() { calendar.NewSolar(y, m, d, 0, 0, 0) })
			w.R.Evals++
			w.R.Transitions++
			if want != !p {
				w.Viol(fmt.Sprintf("C07:NewSolar:%04d-%02d-%02d", y, m, d), fmt.Sprintf("NewSolar(%d,%d,%d,0,0,0) accepted=%v, date exists=%v", y, m, d, !p, want), []int{y, m, d})
			}
			if want && (!r1Valid(y, m, d+1) || !r1Valid(y, m, d-1)) || !want && (r1Valid(y, m, d+1) || r1Valid(y, m, d-1)) {
				w.R.Nontrivial++
			}
			if _, p2 := try(func() { calendar.NewSolarFromYmd(y, m, d) }); p2 != p {
				w.Viol(fmt.Sprintf("C07:NewSolarFromYmd:%04d-%02d-%02d", y, m, d), "NewSolarFromYmd and NewSolar disagree", []int{y, m, d})
			}
		}
	}
	for m := 1; m <= 12; m++ {
		for _, d := range []int{r1LastDay(y, m), r1LastDay(y, m) + 1} {
			dv := r1Valid(y, m, d)
			for _, h := range []int{-1, 0, 23, 24} {
				for _, mi := range []int{-1, 0, 59, 60} {
					for _, s := range []int{-1, 0, 59, 60} {
						want := dv && h >= 0 && h <= 23 && mi >= 0 && mi <= 59 && s >= 0 && s <= 59
						_, p := try(func() { calendar.NewSolar(y, m, d, h, mi, s) })
						w.R.Evals++
						if want != !p {
							w.Viol(fmt.Sprintf("C07:NewSolar:time:%04d-%02d-%02d", y, m, d), fmt.Sprintf("NewSolar(%d,%d,%d,%d,%d,%d) accepted=%v, exists=%v", y, m, d, h, mi, s, !p, want), []int{y, m, d, h, mi, s})
						}
					}
				}
			}
		}
	}
	// ---- the time box on the lunar / Taoist / Buddhist / hour-object constructors: an existing triple with a time of day
	// outside 0..23 / 0..59 / 0..59 either panics or (never, today) yields an object whose own time fields are in range
	for _, md := range [][2]int{{1, 1}, {6, 15}, {12, 29}} {
		for _, h := range []int{-1, 0, 10, 23, 24} {
			for _, mi := range []int{-1, 0, 59, 60} {
				for _, sc := range []int{-1, 0, 59, 60, 86399} {
					inRange := h >= 0 && h <= 23 && mi >= 0 && mi <= 59 && sc >= 0 && sc <= 59
					ctors := map[string]func() (int, int, int, string){
						"NewLunar": func() (int, int, int, string) {
							l := calendar.NewLunar(y, md[0], md[1], h, mi, sc)
							return l.GetHour(), l.GetMinute(), l.GetSecond(), l.GetSolar().ToYmdHms()
						},
						"NewTao": func() (int, int, int, string) {
							l := calendar.NewTao(y+2697, md[0], md[1], h, mi, sc).GetLunar()
							return l.GetHour(), l.GetMinute(), l.GetSecond(), l.GetSolar().ToYmdHms()
						},
						"NewFoto": func() (int, int, int, string) {
							l := calendar.NewFoto(y+544, md[0], md[1], h, mi, sc).GetLunar()
							return l.GetHour(), l.GetMinute(), l.GetSecond(), l.GetSolar().ToYmdHms()
						},
						"NewLunarTime": func() (int, int, int, string) {
							calendar.NewLunarTime(y, md[0], md[1], h, mi, sc)
							return h, mi, sc, ""
						},
					}
					for name, f := range ctors {
						var gh, gm, gs int
						var sol string
						_, p := try(func() { gh, gm, gs, sol = f() })
						w.R.Evals++
						if inRange && p && md[1] != 29 && y > 1 && !inReform(y) {
							w.Viol(fmt.Sprintf("C07:%s:time-rejected:%d", name, y), fmt.Sprintf("%s(%d,%d,%d,%d,%d,%d) rejected although the triple exists and the time is in range", name, y, md[0], md[1], h, mi, sc), y)
						}
						if !inRange && !p && (gh < 0 || gh > 23 || gm < 0 || gm > 59 || gs < 0 || gs > 59) {
							w.Viol(fmt.Sprintf("C07:%s:time-accepted:%d", name, y), fmt.Sprintf("%s(%d,%d,%d,%d,%d,%d) is accepted and yields an object with time fields %d:%d:%d (its civil moment prints %s)", name, y, md[0], md[1], h, mi, sc, gh, gm, gs, sol), y)
						}
					}
				}
			}
		}
	}
	// ---- time.Time entry points: same acceptance and same fields as the integer constructors
	for m := 1; m <= 12; m++ {
		for _, d := range []int{1, 4, 5, 10, 14, 15, 28, 29, 30, 31} {
			// the sub-second part rotates through 0, half a second and the last nanosecond: the fields are those of the
			// second that contains the instant
			t := time.Date(y, time.Month(m), d, 23, 59, 59, []int{0, 500000000, 999999999}[(y+m+d)%3], tzOf(y+d))
			if t.Year() != y || int(t.Month()) != m || t.Day() != d {
				continue // time.Time normalised the date (it does not exist in the proleptic Gregorian calendar)
			}
			want := r1Valid(y, m, d)
			var s *calendar.Solar
			_, p := try(func() { s = calendar.NewSolarFromDate(t) })
			w.R.Evals++
			if want != !p || (!p && !solarEq(s, y, m, d, 23, 59, 59)) {
				w.Viol(fmt.Sprintf("C07:NewSolarFromDate:%04d-%02d-%02d", y, m, d), fmt.Sprintf("NewSolarFromDate(%s) accepted=%v, date exists=%v", t.Format("2006-01-02 15:04:05"), !p, want), []int{y, m, d})
			}
			if !p {
				var l *calendar.Lunar
				if msg, pl := try(func() { l = calendar.NewLunarFromDate(t) }); pl {
					w.Viol(fmt.Sprintf("C07:NewLunarFromDate:panic:%04d-%02d-%02d", y, m, d), msg, []int{y, m, d})
				} else if fieldDigest(l) != fieldDigest(calendar.NewSolar(y, m, d, 23, 59, 59).GetLunar()) {
					w.Viol(fmt.Sprintf("C07:NewLunarFromDate:%04d-%02d-%02d", y, m, d), "NewLunarFromDate("+t.Format("2006-01-02 15:04:05.000000000")+") differs from NewSolar(same fields).GetLunar()", []int{y, m, d})
				}
				wk := calendar.NewSolarWeekFromDate(t, 1)
				sm := calendar.NewSolarMonthFromDate(t)
				ss := calendar.NewSolarSeasonFromDate(t)
				sh := calendar.NewSolarHalfYearFromDate(t)
				sy := calendar.NewSolarYearFromDate(t)
				if wk.GetYear() != y || wk.GetMonth() != m || wk.GetDay() != d || sm.GetYear() != y || sm.GetMonth() != m || ss.GetYear() != y || ss.GetMonth() != m || sh.GetYear() != y || sh.GetMonth() != m || sy.GetYear() != y {
					w.Viol(fmt.Sprintf("C07:FromDate-units:%04d-%02d-%02d", y, m, d), "a ...FromDate constructor of week/month/season/half-year/year carries other fields than the time.Time", []int{y, m, d})
				}
			}
		}
	}
	// ---- time.Time values that programs treat specially (the zero Time, the Unix epoch and other round instants, in
	// several zones): the ...FromDate constructors take their wall-clock fields like any other value
	if y == 1 || y == 1901 || y == 1969 || y == 1970 || y == 2000 || y == 2001 || y == 2038 {
		specials := []time.Time{{}, time.Unix(0, 0), time.Unix(0, 0).UTC(), time.Unix(0, 0).In(tzOf(1)), time.Unix(0, 0).In(tzOf(2)), time.Unix(0, 1), time.Unix(-1, 0).UTC(), time.Unix(1, 0).UTC(),
			time.Unix(1<<31-1, 0).UTC(), time.Unix(1<<31, 0).UTC(), time.Unix(-1<<31, 0).UTC(), time.Unix(946684800, 0).UTC(), time.Unix(946684800, 0).In(tzOf(1)), time.Unix(1e9, 0).UTC(), time.Unix(-2208988800, 0).UTC()}
		for _, t := range specials {
			ty, tm, td, th, tmi, ts := t.Year(), int(t.Month()), t.Day(), t.Hour(), t.Minute(), t.Second()
			if ty != y || !r1Valid(ty, tm, td) {
				continue
			}
			if msg, p := try(func() {
				s := calendar.NewSolarFromDate(t)
				l := calendar.NewLunarFromDate(t)
				ref := calendar.NewSolar(ty, tm, td, th, tmi, ts)
				if !solarEq(s, ty, tm, td, th, tmi, ts) || fieldDigest(l) != fieldDigest(ref.GetLunar()) || pillarSig(l) != pillarSig(ref.GetLunar()) ||
					calendar.NewSolarWeekFromDate(t, 1).GetFirstDay().ToYmd() != calendar.NewSolarWeekFromYmd(ty, tm, td, 1).GetFirstDay().ToYmd() ||
					calendar.NewSolarMonthFromDate(t).GetMonth() != tm || calendar.NewSolarYearFromDate(t).GetYear() != ty || calendar.NewSolarSeasonFromDate(t).GetMonth() != tm || calendar.NewSolarHalfYearFromDate(t).GetMonth() != tm {
					w.Viol("C07:FromDate:special:"+t.Format("2006-01-02T15:04:05.000000000Z07:00"), fmt.Sprintf("a ...FromDate constructor treats the time.Time %s specially: NewSolarFromDate = %s, NewLunarFromDate = %s (%s); its wall-clock fields give %s", t.Format("2006-01-02 15:04:05.000000000 -07:00"), s.ToYmdHms(), lunarYmd(l), l.GetSolar().ToYmdHms(), ref.ToYmdHms()), t.String())
				}
			}); p {
				w.Viol("C07:FromDate:special:panic:"+t.Format("2006-01-02T15:04:05Z07:00"), msg, t.String())
			}
			w.R.Evals++
			w.R.Nontrivial++
		}
	}
	// ---- time.Time values in named zones whose clock changes happen at local midnight (the day then has no 00:00) or
	// that skipped a civil day: every day of the year at 15:30 local; the ...FromDate constructors take the wall-clock
	// fields as given
	if y == 1990 || y == 2010 || y == 2011 || y == 2022 {
		for _, zn := range []string{"America/Santiago", "America/Havana", "America/Sao_Paulo", "Atlantic/Azores", "America/Asuncion", "Pacific/Apia", "Asia/Beirut"} {
			loc, err := time.LoadLocation(zn)
			if err != nil {
				continue
			}
			for j := r1JDN(y, 1, 1); j <= r1JDN(y, 12, 31); j++ {
				cy, cm, cd := r1FromJDN(j)
				t := time.Date(cy, time.Month(cm), cd, 15, 30, 0, 0, loc)
				if t.Year() != cy || int(t.Month()) != cm || t.Day() != cd || t.Hour() != 15 {
					continue // that wall-clock time does not exist in the zone
				}
				if msg, p := try(func() {
					st := 0
					wk := calendar.NewSolarWeekFromDate(t, st)
					ref := calendar.NewSolarWeekFromYmd(cy, cm, cd, st)
					so := calendar.NewSolarFromDate(t)
					if wk.GetYear() != cy || wk.GetMonth() != cm || wk.GetDay() != cd || wk.GetFirstDay().ToYmd() != ref.GetFirstDay().ToYmd() || wk.GetIndex() != ref.GetIndex() ||
						!solarEq(so, cy, cm, cd, 15, 30, 0) || calendar.NewSolarMonthFromDate(t).GetMonth() != cm || calendar.NewSolarYearFromDate(t).GetYear() != cy ||
						calendar.NewSolarSeasonFromDate(t).GetMonth() != cm || calendar.NewSolarHalfYearFromDate(t).GetMonth() != cm || fieldDigest(calendar.NewLunarFromDate(t)) != fieldDigest(calendar.NewSolar(cy, cm, cd, 15, 30, 0).GetLunar()) {
						w.Viol(fmt.Sprintf("C07:FromDate:zone:%s:%04d-%02d-%02d", zn, cy, cm, cd), fmt.Sprintf("a ...FromDate constructor does not take the wall-clock fields of %s (zone %s): week %d-%d-%d first day %s, civil %s", t.Format("2006-01-02 15:04:05 -07:00"), zn, wk.GetYear(), wk.GetMonth(), wk.GetDay(), wk.GetFirstDay().ToYmd(), so.ToYmdHms()), t.String())
					}
				}); p {
					w.Viol("C07:FromDate:zone:panic:"+zn, msg, t.String())
				}
				w.R.Evals++
			}
		}
	}
	// ---- Julian Days in the last half second of a month / year: the instant rounds to 00:00:00 of the next civil day,
	// which exists
	for m := 1; m <= 12; m++ {
		jEnd := r1JDN(y, m, r1LastDay(y, m))
		ny, nm, nd := r1FromJDN(jEnd + 1)
		if ny > 9998 {
			continue
		}
		jd := float64(jEnd) + 0.5 - 0.3/86400
		var s *calendar.Solar
		if msg, p := try(func() { s = calendar.NewSolarFromJulianDay(jd) }); p {
			w.Viol(fmt.Sprintf("C07:NewSolarFromJulianDay:carry:%04d-%02d", y, m), fmt.Sprintf("NewSolarFromJulianDay(%.9f) (0.3 s before the midnight that ends %04d-%02d) panics: %s", jd, y, m, msg), []int{y, m})
		} else if !solarEq(s, ny, nm, nd, 0, 0, 0) {
			w.Viol(fmt.Sprintf("C07:NewSolarFromJulianDay:carry:%04d-%02d", y, m), fmt.Sprintf("NewSolarFromJulianDay(%.9f) = %s, the instant rounds to %04d-%02d-%02d 00:00:00", jd, s.ToYmdHms(), ny, nm, nd), []int{y, m})
		}
		w.R.Evals++
	}
	// ---- lunar image set of lunar year y from the civil sweep
	image := map[[2]int]int{} // (month) -> max day seen; plus set of (m,d)
	have := map[[2]int]bool{}
	j0 := r1JDN(maxInt(y-1, 1), 11, 1)
	j1 := r1JDN(y+1, 3, 15)
	// two walking objects cross the same span by stepping only (Next(1) forwards from its first day, Next(-1) backwards
	// from its last): no step may yield a lunar date other than the image of the civil day it stands on
	var walkF *calendar.Lunar
	{
		var walkB *calendar.Lunar
		for j := j1; j >= j0; j-- {
			cy, cm, cd := r1FromJDN(j)
			var l *calendar.Lunar
			if _, p := try(func() { l = calendar.NewSolarFromYmd(cy, cm, cd).GetLunar() }); p {
				walkB = nil
				continue
			}
			if walkB == nil {
				walkB = l
				continue
			}
			prevW := walkB
			walkB = nil
			if msg, p := try(func() { walkB = prevW.Next(-1) }); p {
				w.Viol(fmt.Sprintf("C07:walk:panic:%04d-%02d-%02d", cy, cm, cd), "Lunar.Next(-1) panicked while walking backwards: "+msg, []int{cy, cm, cd})
				continue
			}
			w.R.Transitions++
			if walkB.GetYear() != l.GetYear() || walkB.GetMonth() != l.GetMonth() || walkB.GetDay() != l.GetDay() || !solarEq(walkB.GetSolar(), cy, cm, cd, 0, 0, 0) {
				w.Viol(fmt.Sprintf("C07:walk:%04d-%02d-%02d", cy, cm, cd), fmt.Sprintf("stepping backwards by Next(-1) reaches lunar %s on civil %s; the image of %04d-%02d-%02d is %s", lunarYmd(walkB), walkB.GetSolar().ToYmd(), cy, cm, cd, lunarYmd(l)), []int{cy, cm, cd})
				walkB = l
			}
		}
	}
	for j := j0; j <= j1; j++ {
		cy, cm, cd := r1FromJDN(j)
		var l *calendar.Lunar
		if _, p := try(func() { l = calendar.NewSolarFromYmd(cy, cm, cd).GetLunar() }); p {
			walkF = nil
			continue
		}
		if walkF == nil {
			walkF = l
		} else {
			prevW := walkF
			walkF = nil
			if msg, p := try(func() { walkF = prevW.Next(1) }); p {
				w.Viol(fmt.Sprintf("C07:walk:panic:%04d-%02d-%02d", cy, cm, cd), "Lunar.Next(1) panicked while walking forwards: "+msg, []int{cy, cm, cd})
			} else {
				w.R.Transitions++
				if walkF.GetYear() != l.GetYear() || walkF.GetMonth() != l.GetMonth() || walkF.GetDay() != l.GetDay() || !solarEq(walkF.GetSolar(), cy, cm, cd, 0, 0, 0) {
					w.Viol(fmt.Sprintf("C07:walk:%04d-%02d-%02d", cy, cm, cd), fmt.Sprintf("stepping forwards by Next(1) reaches lunar %s on civil %s; the image of %04d-%02d-%02d is %s", lunarYmd(walkF), walkF.GetSolar().ToYmd(), cy, cm, cd, lunarYmd(l)), []int{cy, cm, cd})
					walkF = l
				}
			}
		}
		if l.GetYear() == y {
			have[[2]int{l.GetMonth(), l.GetDay()}] = true
			if l.GetDay() > image[[2]int{l.GetMonth(), 0}] {
				image[[2]int{l.GetMonth(), 0}] = l.GetDay()
			}
		}
	}
	if len(have) < 353 && y > 1 && !inReform(y) {
		w.Viol(fmt.Sprintf("C07:image-too-small:%d", y), fmt.Sprintf("only %d civil days map into lunar year %d", len(have), y), y)
	}
	for m := -12; m <= 13; m++ {
		for d := 0; d <= 31; d++ {
			want := have[[2]int{m, d}]
			if y == 1 && !want {
				// lunar year 1 starts inside civil year 1; days before 0001-01-01 have no pre-image in range — not judged
				continue
			}
			var l *calendar.Lunar
			_, p := try(func() { l = calendar.NewLunar(y, m, d, 0, 0, 0) })
			w.R.Evals++
			w.R.Transitions++
			if want && (!have[[2]int{m, d + 1}] || d == 1) || !want && have[[2]int{m, d - 1}] {
				w.R.Nontrivial++
			}
			if want != !p {
				w.Viol(fmt.Sprintf("C07:NewLunar:%d/%d/%d", y, m, d), fmt.Sprintf("NewLunar(%d,%d,%d,0,0,0) accepted=%v, is image of a civil day=%v", y, m, d, !p, want), []int{y, m, d})
				continue
			}
			if !p {
				w.R.Traces++
				b := l.GetSolar().GetLunar()
				if b.GetYear() != y || b.GetMonth() != m || b.GetDay() != d {
					w.Viol(fmt.Sprintf("C07:NewLunar:not-image:%d/%d/%d", y, m, d), fmt.Sprintf("NewLunar(%d,%d,%d) -> %s -> %s", y, m, d, l.GetSolar().ToYmd(), lunarYmd(b)), []int{y, m, d})
				}
			}
			// the other lunar-style constructors share the acceptance set
			others := []struct {
				name string
				f    func()
			}{
				{"NewLunarFromYmd", func() { calendar.NewLunarFromYmd(y, m, d) }},
				{"NewLunarTime", func() { calendar.NewLunarTime(y, m, d, 0, 0, 0) }},
				{"NewTao", func() { calendar.NewTao(y+2697, m, d, 0, 0, 0) }},
				{"NewTaoFromYmd", func() { calendar.NewTaoFromYmd(y+2697, m, d) }},
				{"NewFoto", func() { calendar.NewFoto(y+544, m, d, 0, 0, 0) }},
				{"NewFotoFromYmd", func() { calendar.NewFotoFromYmd(y+544, m, d) }},
			}
			// full set on boundary tuples, one rotating constructor elsewhere
			boundary := want != have[[2]int{m, d + 1}] || want != have[[2]int{m, d - 1}]
			for k, o := range others {
				if !boundary && k != (m+d+12)%len(others) {
					continue
				}
				_, po := try(o.f)
				w.R.Evals++
				if po != p {
					w.Viol(fmt.Sprintf("C07:%s:%d/%d/%d", o.name, y, m, d), fmt.Sprintf("%s accepted=%v but date exists=%v", o.name, !po, want), []int{y, m, d})
				}
			}
			if want && d == 1 {
				for _, t := range [][3]int{{24, 0, 0}, {-1, 0, 0}, {0, 60, 0}, {0, 0, 60}, {0, -1, 0}, {0, 0, -1}, {23, 59, 59}} {
					ok := t[0] >= 0 && t[0] < 24 && t[1] >= 0 && t[1] < 60 && t[2] >= 0 && t[2] < 60
					for name, f := range map[string]func(){
						"NewLunar":     func() { calendar.NewLunar(y, m, d, t[0], t[1], t[2]) },
						"NewLunarTime": func() { calendar.NewLunarTime(y, m, d, t[0], t[1], t[2]) },
						"NewTao":       func() { calendar.NewTao(y+2697, m, d, t[0], t[1], t[2]) },
						"NewFoto":      func() { calendar.NewFoto(y+544, m, d, t[0], t[1], t[2]) },
					} {
						_, pt := try(f)
						w.R.Evals++
						if pt == ok {
							w.Viol(fmt.Sprintf("C07:%s:time:%d/%d/%d", name, y, m, d), fmt.Sprintf("%s(...,%d,%d,%d) accepted=%v", name, t[0], t[1], t[2], !pt), []int{y, m, d, t[0], t[1], t[2]})
						}
					}
				}
			}
		}
	}
	if y%97 == 5 {
		var ms []int
		for k := range image {
			ms = append(ms, k[0])
		}
		sort.Ints(ms)
		w.Sample(map[string]interface{}{"lunar_year": y, "image_days": len(have), "months": ms})
	}
}

func maxInt(a, b int) int {
	if a > b {
		return a
	}
	return b
}

// ---------------------------------------------------------------------------------------------
// E2: chains

type c07Obj struct {
	kind string // S, L, T(ao), F(oto), H (LunarTime)
	s    *calendar.Solar
	l    *calendar.Lunar
}

func (o c07Obj) key() string {
	if o.kind == "S" {
		return "S" + o.s.ToYmdHms()
	}
	return fmt.Sprintf("%s%d/%d/%d %d:%d:%d", o.kind, o.l.GetYear(), o.l.GetMonth(), o.l.GetDay(), o.l.GetHour(), o.l.GetMinute(), o.l.GetSecond())
}

type c07Op struct {
	name string
	on   string
	f    func(o c07Obj) c07Obj
}

func c07Ops() []c07Op {
	var ops []c07Op
	S := func(name string, f func(s *calendar.Solar) *calendar.Solar) {
		ops = append(ops, c07Op{name, "S", func(o c07Obj) c07Obj { return c07Obj{kind: "S", s: f(o.s)} }})
	}
	for _, n := range []int{1, -1, 30, -30} {
		n := n
		S(fmt.Sprintf("NextDay(%d)", n), func(s *calendar.Solar) *calendar.Solar { return s.NextDay(n) })
	}
	for _, n := range []int{1, -1} {
		n := n
		S(fmt.Sprintf("Next(%d,true)", n), func(s *calendar.Solar) *calendar.Solar { return s.Next(n, true) })
	}
	for _, n := range []int{1, -1, 12, -12} {
		n := n
		S(fmt.Sprintf("NextMonth(%d)", n), func(s *calendar.Solar) *calendar.Solar { return s.NextMonth(n) })
	}
	for _, n := range []int{1, -1, 4, -4} {
		n := n
		S(fmt.Sprintf("NextYear(%d)", n), func(s *calendar.Solar) *calendar.Solar { return s.NextYear(n) })
	}
	for _, n := range []int{1, -1, 24, -24} {
		n := n
		S(fmt.Sprintf("NextHour(%d)", n), func(s *calendar.Solar) *calendar.Solar { return s.NextHour(n) })
	}
	S("FromJD(GetJulianDay)", func(s *calendar.Solar) *calendar.Solar { return calendar.NewSolarFromJulianDay(s.GetJulianDay()) })
	ops = append(ops, c07Op{"GetLunar", "S", func(o c07Obj) c07Obj { return c07Obj{kind: "L", l: o.s.GetLunar()} }})
	ops = append(ops, c07Op{"GetSolar", "L", func(o c07Obj) c07Obj { return c07Obj{kind: "S", s: o.l.GetSolar()} }})
	for _, n := range []int{1, -1} {
		n := n
		ops = append(ops, c07Op{fmt.Sprintf("Lunar.Next(%d)", n), "L", func(o c07Obj) c07Obj { return c07Obj{kind: "L", l: o.l.Next(n)} }})
	}
	ops = append(ops, c07Op{"GetTao.GetLunar", "L", func(o c07Obj) c07Obj { return c07Obj{kind: "L", l: o.l.GetTao().GetLunar()} }})
	ops = append(ops, c07Op{"GetFoto.GetLunar", "L", func(o c07Obj) c07Obj { return c07Obj{kind: "L", l: o.l.GetFoto().GetLunar()} }})
	ops = append(ops, c07Op{"GetTime->NewLunarTime(fields)", "L", func(o c07Obj) c07Obj {
		o.l.GetTime()
		calendar.NewLunarTime(o.l.GetYear(), o.l.GetMonth(), o.l.GetDay(), o.l.GetHour(), o.l.GetMinute(), o.l.GetSecond())
		return o
	}})
	ops = append(ops, c07Op{"NewTao(fields)", "L", func(o c07Obj) c07Obj {
		t := o.l.GetTao()
		return c07Obj{kind: "L", l: calendar.NewTao(t.GetYear(), t.GetMonth(), t.GetDay(), o.l.GetHour(), o.l.GetMinute(), o.l.GetSecond()).GetLunar()}
	}})
	ops = append(ops, c07Op{"NewLunar(fields)", "L", func(o c07Obj) c07Obj {
		return c07Obj{kind: "L", l: calendar.NewLunar(o.l.GetYear(), o.l.GetMonth(), o.l.GetDay(), o.l.GetHour(), o.l.GetMinute(), o.l.GetSecond())}
	}})
	return ops
}

func solarValid(s *calendar.Solar) bool {
	return r1Valid(s.GetYear(), s.GetMonth(), s.GetDay()) && s.GetHour() >= 0 && s.GetHour() <= 23 && s.GetMinute() >= 0 && s.GetMinute() <= 59 && s.GetSecond() >= 0 && s.GetSecond() <= 59
}

func (o c07Obj) year() int {
	if o.kind == "S" {
		return o.s.GetYear()
	}
	return o.l.GetSolar().GetYear()
}

func c07Valid(o c07Obj) (bool, string) {
	if o.kind == "S" {
		if !solarValid(o.s) {
			return false, "civil fields " + o.s.ToYmdHms() + " are not a valid date-time"
		}
		return true, ""
	}
	s := o.l.GetSolar()
	if s == nil || !solarValid(s) {
		return false, "attached civil date invalid"
	}
	y, m, d := o.l.GetYear(), o.l.GetMonth(), o.l.GetDay()
	if m == 0 || d < 1 || d > 30 {
		return false, fmt.Sprintf("lunar fields %d/%d/%d out of range", y, m, d)
	}
	b := calendar.NewSolar(s.GetYear(), s.GetMonth(), s.GetDay(), 0, 0, 0).GetLunar()
	if b.GetYear() != y || b.GetMonth() != m || b.GetDay() != d {
		return false, fmt.Sprintf("lunar fields %d/%d/%d are not the image of attached civil day %s (%s)", y, m, d, s.ToYmd(), lunarYmd(b))
	}
	if o.l.GetHour() != s.GetHour() || o.l.GetMinute() != s.GetMinute() || o.l.GetSecond() != s.GetSecond() {
		return false, "lunar time fields differ from attached civil time"
	}
	return true, ""
}

func runC07Chains(w *W) {
	depth := 3
	if w.Thorough() {
		depth = 4
	}
	ops := c07Ops()
	var seeds []*calendar.Solar
	for _, y := range []int{1582, 1600, 1900, 2000, 2024} {
		for m := 1; m <= 12; m++ {
			seeds = append(seeds, calendar.NewSolar(y, m, r1LastDay(y, m), 23, 59, 59))
		}
	}
	seeds = append(seeds, calendar.NewSolar(1582, 10, 4, 0, 0, 0), calendar.NewSolar(1582, 10, 15, 12, 0, 0), calendar.NewSolar(2024, 2, 29, 0, 0, 0), calendar.NewSolar(2000, 2, 29, 23, 0, 0),
		calendar.NewSolar(1, 1, 1, 0, 0, 0), calendar.NewSolar(9998, 12, 31, 23, 59, 59), calendar.NewSolar(2020, 5, 22, 0, 0, 0), calendar.NewSolar(2020, 6, 21, 0, 0, 0), calendar.NewSolar(2033, 12, 22, 1, 0, 0), calendar.NewSolar(19, 2, 20, 0, 0, 0),
		calendar.NewSolar(2021, 9, 30, 8, 0, 0), calendar.NewSolar(2021, 10, 8, 8, 0, 0))
	type node struct {
		o    c07Obj
		path []string
	}
	seen := map[string]bool{}
	var frontier []node
	for _, s := range seeds {
		o := c07Obj{kind: "S", s: s}
		if !seen[o.key()] {
			seen[o.key()] = true
			frontier = append(frontier, node{o, []string{"seed " + s.ToYmdHms()}})
		}
	}
	maxDepth := 0
	for dep := 1; dep <= depth; dep++ {
		var next []node
		for _, nd := range frontier {
			for _, op := range ops {
				if op.on != nd.o.kind {
					continue
				}
				var res c07Obj
				msg, p := try(func() { res = op.f(nd.o) })
				w.R.Transitions++
				w.R.Evals++
				yr := nd.o.year()
				if p {
					if yr <= 4 || yr >= 9994 {
						continue // leaves the supported range: pruned, not judged
					}
					path := append(append([]string{}, nd.path...), op.name)
					w.Viol("C07:chain:panic:"+op.name+":"+panicSite(msg), fmt.Sprintf("chain %v panicked: %s", path, msg), path)
					continue
				}
				ry := res.year()
				if ry < 1 || ry > 9998 {
					continue
				}
				w.R.Traces++
				if ok, why := c07Valid(res); !ok {
					path := append(append([]string{}, nd.path...), op.name)
					w.Viol("C07:chain:invalid:"+op.name, fmt.Sprintf("chain %v produced an invalid object: %s", path, why), path)
					continue
				}
				k := res.key()
				if !seen[k] {
					seen[k] = true
					if res.kind == "S" && nd.o.kind == "S" && res.s.GetMonth() != nd.o.s.GetMonth() {
						w.R.Nontrivial++
					}
					next = append(next, node{res, append(append([]string{}, nd.path...), op.name)})
					maxDepth = dep
				}
			}
		}
		frontier = next
	}
	w.R.States += int64(len(seen))
	w.Count("bfs_states", int64(len(seen)))
	w.Count("bfs_max_depth", int64(maxDepth))
	if len(frontier) > 0 {
		w.Sample(map[string]interface{}{"chain": frontier[len(frontier)/2].path, "reaches": frontier[len(frontier)/2].o.key()})
	}
}
