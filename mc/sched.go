package main

// E3 — controlled scheduler with iterative preemption bounding (CHESS-style), written for this task.
// lunar-go's "sync" import is redirected to the vsync shim by the build overlay; with this
// scheduler attached every Mutex.Lock/Unlock in the library is a scheduling point. Exactly one
// harness thread runs at any time; the scheduler decides which one at every point.

import (
	"fmt"
	"strings"

	"github.com/6tail/lunar-go/vsync"
)

type opKind int

const (
	opNone opKind = iota
	opStart
	opLock
)

type thr struct {
	id     int
	body   func(t *thr)
	wake   chan struct{}
	pend   opKind
	pendM  *vsync.Mutex
	done   bool
	points int
	obs    []string // observations (results, cache digests seen) — part of the state key
	Res    []string // op results (digests) in program order
	paths  []string // path signature items (e.g. "hit"/"built")
}

func (t *thr) Observe(s string) { t.obs = append(t.obs, s) }

type pointRec struct {
	enabled        []int
	choice         int
	running        int
	runningEnabled bool
	key            string
}

type Exec struct {
	points        []pointRec
	choices       []int
	deadlock      bool
	blocked       []int
	thrs          []*thr
	lockHeld      bool
	blockedEvents int // scheduling points at which some unfinished thread was waiting for a held mutex
}

type Sched struct {
	thrs       []*thr
	cur        *thr
	yield      chan struct{}
	stateKey   func() string // digest of shared state (cache, lock) supplied by the harness
	locks      map[*vsync.Mutex]bool
	divergence string
	observing  bool // the scheduler goroutine itself is calling library code (state key): no scheduling points
}

// observe runs a harness observation (the state key) on the scheduler goroutine. Library code reached from it may use
// the shim's mutexes (an accessor that synchronises internally): those operations are not scheduling points - every
// thread is parked - and a mutex found held by a parked thread makes the observation report "blocked" instead of
// handing the scheduler goroutine to the scheduler.
func (s *Sched) observe(f func() string) (out string) {
	s.observing = true
	defer func() {
		s.observing = false
		if r := recover(); r != nil {
			out = "OBSERVATION-BLOCKED:" + fmt.Sprint(r)
		}
	}()
	return f()
}

func (s *Sched) Lock(m *vsync.Mutex) {
	if s.observing {
		if m.Held {
			panic("mutex held by a parked thread")
		}
		m.Held, m.Owner = true, -2
		return
	}
	t := s.cur
	s.locks[m] = true
	t.pend, t.pendM = opLock, m
	s.park(t)
	if m.Held {
		panic("scheduler bug: woke a thread whose mutex is held")
	}
	m.Held, m.Owner = true, t.id
	t.pend, t.pendM = opNone, nil
}

func (s *Sched) Unlock(m *vsync.Mutex) {
	if s.observing {
		m.Held = false
		return
	}
	t := s.cur
	if !m.Held {
		panic("sync: unlock of unlocked mutex")
	}
	m.Held = false
	t.pend = opNone
	s.park(t)
}

func (s *Sched) park(t *thr) {
	t.points++
	s.yield <- struct{}{}
	<-t.wake
}

// run executes one schedule: replay prefix, then default choice 0 at every later point.
// setup (optional) runs alone first; bodies are the harness threads.
func runSchedule(setup func(t *thr), bodies []func(t *thr), prefix []int, stateKey func() string, reset func()) *Exec {
	s := &Sched{yield: make(chan struct{}), stateKey: stateKey, locks: map[*vsync.Mutex]bool{}}
	vsync.Attach(s)
	defer vsync.Attach(nil)
	reset()
	x := &Exec{}
	start := func(t *thr) {
		go func() {
			<-t.wake
			defer func() {
				if r := recover(); r != nil {
					t.Res = append(t.Res, "THREAD-PANIC:"+fmt.Sprint(r))
				}
				t.done = true
				s.yield <- struct{}{}
			}()
			t.body(t)
		}()
	}
	if setup != nil {
		st := &thr{id: -1, body: setup, wake: make(chan struct{}), pend: opStart}
		start(st)
		for !st.done {
			if st.pend == opLock && st.pendM.Held {
				x.deadlock = true
				x.blocked = []int{-1}
				return x
			}
			s.cur = st
			st.wake <- struct{}{}
			<-s.yield
		}
	}
	for i, b := range bodies {
		t := &thr{id: i, body: b, wake: make(chan struct{}), pend: opStart}
		s.thrs = append(s.thrs, t)
		start(t)
	}
	x.thrs = s.thrs
	running := -1
	step := 0
	for {
		var en []int
		allDone := true
		for _, t := range s.thrs {
			if t.done {
				continue
			}
			allDone = false
			if t.pend == opLock && t.pendM.Held {
				x.blockedEvents++
				continue
			}
			en = append(en, t.id)
		}
		if allDone {
			break
		}
		if len(en) == 0 {
			x.deadlock = true
			for _, t := range s.thrs {
				if !t.done {
					x.blocked = append(x.blocked, t.id)
				}
			}
			break
		}
		// canonical order: the running thread first if still enabled, then ascending ids
		order := make([]int, 0, len(en))
		runEn := false
		for _, id := range en {
			if id == running {
				runEn = true
			}
		}
		if runEn {
			order = append(order, running)
		}
		for _, id := range en {
			if id != running {
				order = append(order, id)
			}
		}
		choice := 0
		if step < len(prefix) {
			choice = prefix[step]
			if choice >= len(order) {
				s.divergence = fmt.Sprintf("replay divergence at step %d: choice %d of %d enabled", step, choice, len(order))
				panic(s.divergence)
			}
		}
		pr := pointRec{enabled: order, choice: choice, running: running, runningEnabled: runEn}
		if stateKey != nil {
			var sb strings.Builder
			for _, t := range s.thrs {
				fmt.Fprintf(&sb, "%d:%d:%v:%s|", t.id, t.points, t.done, hashStr(strings.Join(t.obs, ";")))
			}
			fmt.Fprintf(&sb, "run=%d|", running)
			sb.WriteString(s.observe(stateKey))
			pr.key = sb.String()
		}
		x.points = append(x.points, pr)
		x.choices = append(x.choices, choice)
		next := order[choice]
		running = next
		s.cur = s.thrs[next]
		s.thrs[next].wake <- struct{}{}
		<-s.yield
		step++
	}
	for m := range s.locks {
		if m.Held {
			x.lockHeld = true
			// a mutex left held is reported by the caller; it is released here so that the next execution starts from
			// unlocked mutexes whatever package they belong to
			m.Held, m.Owner = false, 0
		}
	}
	return x
}

func (x *Exec) preemptionsBefore(i int) int {
	n := 0
	for k := 0; k < i; k++ {
		if x.points[k].runningEnabled && x.points[k].choice != 0 {
			n++
		}
	}
	return n
}

type Explorer struct {
	setup    func(t *thr)
	bodies   []func(t *thr)
	stateKey func() string
	reset    func()
	bound    int // -1 = unbounded
	prune    bool
	seen     map[string]int // state key -> largest remaining budget explored (unbounded: 1<<30)
	check    func(x *Exec, schedule []int)
	Runs     int
	Pruned   int
	MaxRuns  int
	Capped   bool
}

func (e *Explorer) Explore() {
	e.seen = map[string]int{}
	e.explore(nil)
}

func (e *Explorer) explore(prefix []int) {
	if e.MaxRuns > 0 && e.Runs >= e.MaxRuns {
		e.Capped = true
		return
	}
	x := runSchedule(e.setup, e.bodies, prefix, e.stateKey, e.reset)
	e.Runs++
	e.check(x, x.choices)
	for i := len(prefix); i < len(x.points); i++ {
		p := x.points[i]
		used := x.preemptionsBefore(i)
		remaining := 1 << 30
		if e.bound >= 0 {
			remaining = e.bound - used
		}
		if e.prune && p.key != "" {
			if r, ok := e.seen[p.key]; ok && r >= remaining {
				e.Pruned++
				break // this state and everything reachable from it was explored with at least this budget
			}
			e.seen[p.key] = remaining
		}
		for alt := 1; alt < len(p.enabled); alt++ {
			cost := used
			if p.runningEnabled {
				cost++
			}
			if e.bound >= 0 && cost > e.bound {
				continue
			}
			np := append(append([]int{}, x.choices[:i]...), alt)
			e.explore(np)
		}
	}
}
