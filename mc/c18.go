package main

// C18 — almanac attributes are pure functions of the pillars they are defined on.
// Engine E1 + functional-dependence tables (differential oracle: no hand-written expected values)
// + the four classical laws.

import (
	"fmt"
	"strings"

	"github.com/6tail/lunar-go/LunarUtil"
	"github.com/6tail/lunar-go/calendar"
)

func init() {
	register(&Check{
		ID:            "C18",
		Rule:          "every civil day in the year set (thorough: all days 1..9998) x 13 slot entries: ~110 attribute getters of Lunar, LunarTime and EightChar grouped by their declared defining inputs; for every group the enumerated states are collapsed by key and a second value for the same key is a violation (two concrete witnesses); the four laws (mansion order and weekday, duty god 'establish', clash = +6, nayin pairs) on every state/edge. non-trivial = number of distinct (group,key) pairs that were observed in at least two different states is not measurable cheaply; counted instead: states whose key was already present in its table (each is a real dependence test)",
		Assume:        []string{"the grouping of getters by defining input follows the property text (day/hour stem; branch; pillar pair; month branch x day branch; month pillar x day pillar; lunar month x day pillar; lunar month x day)", "getDayPositionTaiSui's spelling of 己 as 已 makes some days fall through to the year-based branch; the result is still a function of (day pillar, year branch), which is what C18 demands — recorded, not judged"},
		Shards:        func(tier string, seed int64) []Shard { return yearShards(tier, seed, 9998, "") },
		Run:           runC18,
		MinNontrivial: 100,
	})
}

var xiuOrder = []string{"角", "亢", "氐", "房", "心", "尾", "箕", "斗", "牛", "女", "虚", "危", "室", "壁", "奎", "娄", "胃", "昴", "毕", "觜", "参", "井", "鬼", "柳", "星", "张", "翼", "轸"}

func xiuIndex(s string) int {
	for i, v := range xiuOrder {
		if v == s {
			return i
		}
	}
	return -1
}

func js(parts ...interface{}) string {
	ss := make([]string, len(parts))
	for i, p := range parts {
		switch v := p.(type) {
		case string:
			ss[i] = v
		default:
			ss[i] = render1(p)
		}
	}
	return strings.Join(ss, "\x1f")
}

func runC18(w *W) {
	perturbCache = true
	walkLunar = true
	// nayin law on the table: pairs 2k, 2k+1 share a nayin; each name covers exactly two consecutive pairs... (one element per name)
	for k := 0; k < 30; k++ {
		a, b := LunarUtil.NAYIN[gz(2*k)], LunarUtil.NAYIN[gz(2*k+1)]
		if a == "" || a != b {
			w.Viol(fmt.Sprintf("C18:nayin-pair:%d", k), fmt.Sprintf("pillars %s and %s have nayin %q and %q", gz(2*k), gz(2*k+1), a, b), k)
		}
	}
	// xun and empty branches by the stem-branch pair, on the helper functions themselves: pair i belongs to the decade
	// i/10 named after its first pair; the decade uses ten consecutive branches and leaves the next two empty
	for i := 0; i < 60; i++ {
		k := i / 10
		wantXun, wantKong := gz(10*k), zhiS[(10*k+10)%12]+zhiS[(10*k+11)%12]
		var xi int
		var xun, kong string
		if msg, p := try(func() {
			xi, xun, kong = LunarUtil.GetXunIndex(gz(i)), LunarUtil.GetXun(gz(i)), LunarUtil.GetXunKong(gz(i))
		}); p {
			w.Viol(fmt.Sprintf("C18:xun:panic:%d", i), msg, i)
		} else if xi != k || xun != wantXun || kong != wantKong {
			w.Viol(fmt.Sprintf("C18:xun:%d", i), fmt.Sprintf("pillar %s: xun index %d name %s empty %s, rule says %d %s %s", gz(i), xi, xun, kong, k, wantXun, wantKong), i)
		}
		w.R.Evals++
	}
	fd := func(table, key, val, wit string) {
		t := w.R.FD[table]
		if t != nil {
			if _, ok := t[key]; ok {
				w.R.Nontrivial++
			}
		}
		w.FDCheck(table, key, hashStr(val), wit)
	}
	prevXiu := -1
	sweepDays(w, "C18", func(d *Day, prev *Day) {
		if prev == nil {
			prevXiu = -1
		}
		// the moments of the day: the 13 slot entries, and on a term day the term's instant, the seconds next to it and
		// both ends of its minute (where comparisons at minute or day precision would show)
		type mom struct {
			t       hms
			dayAttr bool
		}
		var moms []mom
		for k := 0; k <= 12; k++ {
			h := 0
			if k > 0 {
				h = 2*k - 1
			}
			moms = append(moms, mom{hms{h, 0, 0}, k == 0 || k == 12})
		}
		for _, tm := range termsOf(d.L()) {
			if tm.J == d.J {
				for _, sec := range []int{tm.Sec - tm.Sec%60, tm.Sec - 1, tm.Sec, tm.Sec + 1, tm.Sec - tm.Sec%60 + 59} {
					if sec >= 0 && sec < 86400 {
						moms = append(moms, mom{hms{sec / 3600, sec / 60 % 60, sec % 60}, true})
					}
				}
			}
		}
		for k, mo := range moms {
			l := lunarP(d.At(mo.t.h, mo.t.m, mo.t.s), d.J)
			wit := fmt.Sprintf("%s %02d:%02d:%02d", d.Ymd, mo.t.h, mo.t.m, mo.t.s)
			w.R.Evals++
			dg, dz := l.GetDayGanIndex(), l.GetDayZhiIndex()
			dgz := l.GetDayInGanZhi()
			if mo.dayAttr {
				// ---- day attributes (time independent; evaluated at both ends of the day)
				fd("dayStem", fmt.Sprint(dg), js(l.GetDayPositionXi(), l.GetDayPositionXiDesc(), l.GetDayPositionYangGui(), l.GetDayPositionYangGuiDesc(), l.GetDayPositionYinGui(), l.GetDayPositionYinGuiDesc(),
					l.GetDayPositionFu(), l.GetDayPositionFuDesc(), l.GetDayPositionFuBySect(1), l.GetDayPositionFuDescBySect(1), l.GetDayPositionCai(), l.GetDayPositionCaiDesc(), l.GetPengZuGan(), l.GetDayChongGan(), l.GetDayChongGanTie(), l.GetDayGan()), wit)
				fd("dayBranch", fmt.Sprint(dz), js(l.GetPengZuZhi(), l.GetDayChong(), l.GetDayChongShengXiao(), l.GetDaySha(), l.GetDayShengXiao(), l.GetDayZhi()), wit)
				fd("dayPillar", dgz, js(l.GetDayNaYin(), l.GetDayXun(), l.GetDayXunKong(), l.GetDayPositionTai(), l.GetDayChongDesc(), l.GetDayLu()), wit)
				fd("dayPillarExact", l.GetDayInGanZhiExact(), js(l.GetDayXunExact(), l.GetDayXunKongExact()), wit)
				fd("dayPillarExact2", l.GetDayInGanZhiExact2(), js(l.GetDayXunExact2(), l.GetDayXunKongExact2()), wit)
				fd("yearPillar", l.GetYearInGanZhi(), js(l.GetYearNaYin(), l.GetYearXun(), l.GetYearXunKong(), l.GetYearShengXiao()), wit)
				fd("yearPillarByLiChun", l.GetYearInGanZhiByLiChun(), js(l.GetYearXunByLiChun(), l.GetYearXunKongByLiChun(), l.GetYearShengXiaoByLiChun()), wit)
				fd("yearPillarExact", l.GetYearInGanZhiExact(), js(l.GetYearXunExact(), l.GetYearXunKongExact(), l.GetYearShengXiaoExact()), wit)
				fd("monthPillar", l.GetMonthInGanZhi(), js(l.GetMonthNaYin(), l.GetMonthXun(), l.GetMonthXunKong(), l.GetMonthShengXiao()), wit)
				fd("monthPillarExact", l.GetMonthInGanZhiExact(), js(l.GetMonthXunExact(), l.GetMonthXunKongExact()), wit)
				fd("monthBranch×dayBranch", fmt.Sprintf("%d|%d", l.GetMonthZhiIndex(), dz), js(l.GetZhiXing(), l.GetDayTianShen(), l.GetDayTianShenType(), l.GetDayTianShenLuck()), wit)
				fd("monthPillar×dayPillar", l.GetMonthInGanZhi()+"|"+dgz, js(l.GetDayYi(), l.GetDayJi(), l.GetDayYiBySect(1), l.GetDayJiBySect(1)), wit)
				fd("monthPillarExact×dayPillar", l.GetMonthInGanZhiExact()+"|"+dgz, js(l.GetDayYiBySect(2), l.GetDayJiBySect(2)), wit)
				fd("lunarMonth×dayPillar", fmt.Sprintf("%d|%s", l.GetMonth(), dgz), js(l.GetDayJiShen(), l.GetDayXiongSha()), wit)
				fd("lunarMonth×day", fmt.Sprintf("%d|%d", l.GetMonth(), l.GetDay()), js(l.GetYueXiang(), l.GetLiuYao(), l.GetSeason(), l.GetMonthPositionTai()), wit)
				fd("lunarDay", fmt.Sprint(l.GetDay()), js(l.GetYueXiang(), l.GetDayInChinese()), wit)
				for sect := 1; sect <= 3; sect++ {
					yz := []int{0, l.GetYearZhiIndex(), l.GetYearZhiIndexByLiChun(), l.GetYearZhiIndexExact()}[sect]
					dp := dgz
					if sect == 2 {
						dp = l.GetDayInGanZhiExact2()
					}
					fd("dayPillar×yearBranch:taisui", fmt.Sprintf("%s|%d", dp, yz), js(l.GetDayPositionTaiSuiBySect(sect), l.GetDayPositionTaiSuiDescBySect(sect)), wit)
					fd("yearBranch:taisui", fmt.Sprint(yz), js(l.GetYearPositionTaiSuiBySect(sect), l.GetYearPositionTaiSuiDescBySect(sect)), wit)
					mz, mg := l.GetMonthZhiIndex(), l.GetMonthGanIndex()
					if sect == 3 {
						mz, mg = l.GetMonthZhiIndexExact(), l.GetMonthGanIndexExact()
					}
					fd("monthPillar:taisui", fmt.Sprintf("%d|%d", mg, mz), js(l.GetMonthPositionTaiSuiBySect(sect), l.GetMonthPositionTaiSuiDescBySect(sect)), wit)
				}
				// mansion: function of (weekday, day branch), with its derived attributes
				fd("weekday×dayBranch:xiu", fmt.Sprintf("%d|%d", r1Weekday(d.J), dz%4), l.GetXiu(), wit)
				fd("xiu", l.GetXiu(), js(l.GetXiuLuck(), l.GetXiuSong(), l.GetZheng(), l.GetAnimal(), l.GetGong(), l.GetShou(), fmt.Sprint(r1Weekday(d.J))), wit)
				// ---- laws
				if (l.GetZhiXing() == "建") != (dz == l.GetMonthZhiIndex()) {
					w.Viol("C18:law:jian:"+d.Ymd, fmt.Sprintf("%s: duty god %q with day branch %d, month branch %d", wit, l.GetZhiXing(), dz, l.GetMonthZhiIndex()), wit)
				}
				if l.GetDayChong() != zhiS[(dz+6)%12] {
					w.Viol("C18:law:chong:"+d.Ymd, fmt.Sprintf("%s: clash branch %q for day branch %s", wit, l.GetDayChong(), zhiS[dz]), wit)
				}
				if k == 0 {
					xi := xiuIndex(l.GetXiu())
					if xi < 0 {
						w.Viol("C18:law:xiu:unknown:"+d.Ymd, "mansion "+l.GetXiu()+" is not one of the 28", wit)
					} else if prevXiu >= 0 {
						w.R.Traces++
						if xi != (prevXiu+1)%28 {
							w.Viol("C18:law:xiu:order:"+d.Ymd, fmt.Sprintf("mansion goes %s -> %s at %s", xiuOrder[prevXiu], l.GetXiu(), d.Ymd), wit)
						}
					}
					prevXiu = xi
				}
			}
			// ---- hour attributes
			tg, tz := l.GetTimeGanIndex(), l.GetTimeZhiIndex()
			tgz := l.GetTimeInGanZhi()
			lt := l.GetTime()
			fd("hourStem", fmt.Sprint(tg), js(l.GetTimePositionXi(), l.GetTimePositionXiDesc(), l.GetTimePositionYangGui(), l.GetTimePositionYangGuiDesc(), l.GetTimePositionYinGui(), l.GetTimePositionYinGuiDesc(),
				l.GetTimePositionFu(), l.GetTimePositionFuDesc(), l.GetTimePositionCai(), l.GetTimePositionCaiDesc(), l.GetTimeChongGan(), l.GetTimeChongGanTie(),
				lt.GetPositionXi(), lt.GetPositionXiDesc(), lt.GetPositionYangGui(), lt.GetPositionYangGuiDesc(), lt.GetPositionYinGui(), lt.GetPositionYinGuiDesc(), lt.GetPositionFu(), lt.GetPositionFuDesc(), lt.GetPositionFuBySect(1), lt.GetPositionFuDescBySect(1), lt.GetPositionCai(), lt.GetPositionCaiDesc(), lt.GetChongGan(), lt.GetChongGanTie()), wit)
			fd("hourBranch", fmt.Sprint(tz), js(l.GetTimeChong(), l.GetTimeSha(), l.GetTimeChongShengXiao(), l.GetTimeShengXiao(), lt.GetChong(), lt.GetSha(), lt.GetChongShengXiao(), lt.GetShengXiao()), wit)
			fd("hourPillar", tgz, js(l.GetTimeNaYin(), l.GetTimeXun(), l.GetTimeXunKong(), l.GetTimeChongDesc(), lt.GetNaYin(), lt.GetXun(), lt.GetXunKong(), lt.GetChongDesc(), lt.GetGanZhi()), wit)
			fd("dayBranchExact×hourBranch", fmt.Sprintf("%d|%d", l.GetDayZhiIndexExact(), tz), js(l.GetTimeTianShen(), l.GetTimeTianShenType(), l.GetTimeTianShenLuck(), lt.GetTianShen(), lt.GetTianShenType(), lt.GetTianShenLuck()), wit)
			fd("dayPillarExact×hourPillar", l.GetDayInGanZhiExact()+"|"+tgz, js(l.GetTimeYi(), l.GetTimeJi(), lt.GetYi(), lt.GetJi()), wit)
			if l.GetTimeChong() != zhiS[(tz+6)%12] {
				w.Viol("C18:law:chong:hour:"+d.Ymd, fmt.Sprintf("%s: hour clash branch %q for hour branch %s", wit, l.GetTimeChong(), zhiS[tz]), wit)
			}
			// ---- fortune objects carry a stem-branch pair too: their xun / empty branches are those of that pair (same
			// dependence table as the hour pillar's; one gender and school per state, rotating)
			if k == d.J%13 {
				if _, p := try(func() {
					yun := l.GetEightChar().GetYunBySect(d.J%2, 1+(d.J/2)%2)
					chk := func(kind, gzs, xun, kong string) {
						if gzs == "" {
							return
						}
						fd("pairXun", gzs, js(xun, kong), wit+" "+kind)
						w.R.Evals++
					}
					dys := yun.GetDaYun()
					for i, dy := range dys {
						chk("DaYun", dy.GetGanZhi(), dy.GetXun(), dy.GetXunKong())
						if i != (d.J/4)%len(dys) {
							continue
						}
						for _, ln := range dy.GetLiuNian() {
							chk("LiuNian", ln.GetGanZhi(), ln.GetXun(), ln.GetXunKong())
						}
						for _, xy := range dy.GetXiaoYun() {
							chk("XiaoYun", xy.GetGanZhi(), xy.GetXun(), xy.GetXunKong())
						}
						if lns := dy.GetLiuNian(); len(lns) > 0 {
							for _, ly := range lns[(d.J/40)%len(lns)].GetLiuYue() {
								chk("LiuYue", ly.GetGanZhi(), ly.GetXun(), ly.GetXunKong())
							}
						}
					}
				}); p {
					// totality of the fortune objects is C08's business
				}
				fd("pairXun", tgz, js(l.GetTimeXun(), l.GetTimeXunKong()), wit)
				fd("pairXun", dgz, js(l.GetDayXun(), l.GetDayXunKong()), wit)
			}
			// ---- eight characters: per-pillar attributes keyed by the pillar (and the day stem where the definition uses it)
			ec := l.GetEightChar()
			for _, sect := range []int{1, 2} {
				ec.SetSect(sect)
				dgS := ec.GetDayGan()
				type pil struct {
					name, gzs, gan, zhi       string
					wuxing, nayin, ssg, dishi string
					hide                      []string
					ssz                       interface{}
					xun, xunkong              string
				}
				ps := []pil{
					{"year", ec.GetYear(), ec.GetYearGan(), ec.GetYearZhi(), ec.GetYearWuXing(), ec.GetYearNaYin(), ec.GetYearShiShenGan(), ec.GetYearDiShi(), ec.GetYearHideGan(), ec.GetYearShiShenZhi(), ec.GetYearXun(), ec.GetYearXunKong()},
					{"month", ec.GetMonth(), ec.GetMonthGan(), ec.GetMonthZhi(), ec.GetMonthWuXing(), ec.GetMonthNaYin(), ec.GetMonthShiShenGan(), ec.GetMonthDiShi(), ec.GetMonthHideGan(), ec.GetMonthShiShenZhi(), ec.GetMonthXun(), ec.GetMonthXunKong()},
					{"day", ec.GetDay(), ec.GetDayGan(), ec.GetDayZhi(), ec.GetDayWuXing(), ec.GetDayNaYin(), ec.GetDayShiShenGan(), ec.GetDayDiShi(), ec.GetDayHideGan(), ec.GetDayShiShenZhi(), ec.GetDayXun(), ec.GetDayXunKong()},
					{"time", ec.GetTime(), ec.GetTimeGan(), ec.GetTimeZhi(), ec.GetTimeWuXing(), ec.GetTimeNaYin(), ec.GetTimeShiShenGan(), ec.GetTimeDiShi(), ec.GetTimeHideGan(), ec.GetTimeShiShenZhi(), ec.GetTimeXun(), ec.GetTimeXunKong()},
				}
				for _, p := range ps {
					fd("ec:pillar", p.gzs, js(p.wuxing, p.nayin, p.hide, p.xun, p.xunkong, p.gan, p.zhi), wit)
					if p.name == "day" {
						// the day pillar's own ten-god is "day master" by definition, so it has its own table
						fd("ec:dayPillar:self", p.gzs, js(p.ssg, p.ssz, p.dishi), wit)
					} else {
						fd("ec:dayStem×pillar", dgS+"|"+p.gzs, js(p.ssg, p.ssz, p.dishi), wit)
					}
				}
			}
			ec.SetSect(2)
		}
		// ---- hour objects taken from a day's list, with a receiver in the late-rat hour (even days) or at noon (odd days):
		// the same tables, keyed by the pillars of the slot the item stands for (read from the directly built date)
		{
			recv := d.At(12, 0, 0)
			if d.J%2 == 0 {
				recv = d.At(23, 30, 0)
			}
			var items []*calendar.LunarTime
			if msg, p := try(func() { items = recv.GetLunar().GetTimes() }); p {
				w.Viol("C18:GetTimes:panic:"+d.Ymd, msg, d.Ymd)
			}
			for k, it := range items {
				if k > 12 || (k+d.J)%3 != 0 {
					continue // every third slot, rotating with the day
				}
				h := 0
				if k > 0 {
					h = 2*k - 1
				}
				l := d.At(h, 0, 0).GetLunar()
				wit := fmt.Sprintf("%s GetTimes()[%d] of the %s object", d.Ymd, k, recv.ToYmdHms())
				tgz := l.GetTimeInGanZhi()
				w.R.Evals++
				fd("hourStem", fmt.Sprint(l.GetTimeGanIndex()), js(it.GetPositionXi(), it.GetPositionXiDesc(), it.GetPositionYangGui(), it.GetPositionYangGuiDesc(), it.GetPositionYinGui(), it.GetPositionYinGuiDesc(),
					it.GetPositionFu(), it.GetPositionFuDesc(), it.GetPositionCai(), it.GetPositionCaiDesc(), it.GetChongGan(), it.GetChongGanTie(),
					it.GetPositionXi(), it.GetPositionXiDesc(), it.GetPositionYangGui(), it.GetPositionYangGuiDesc(), it.GetPositionYinGui(), it.GetPositionYinGuiDesc(), it.GetPositionFu(), it.GetPositionFuDesc(), it.GetPositionFuBySect(1), it.GetPositionFuDescBySect(1), it.GetPositionCai(), it.GetPositionCaiDesc(), it.GetChongGan(), it.GetChongGanTie()), wit)
				fd("hourBranch", fmt.Sprint(l.GetTimeZhiIndex()), js(it.GetChong(), it.GetSha(), it.GetChongShengXiao(), it.GetShengXiao(), it.GetChong(), it.GetSha(), it.GetChongShengXiao(), it.GetShengXiao()), wit)
				fd("hourPillar", tgz, js(it.GetNaYin(), it.GetXun(), it.GetXunKong(), it.GetChongDesc(), it.GetNaYin(), it.GetXun(), it.GetXunKong(), it.GetChongDesc(), it.GetGanZhi()), wit)
				fd("dayBranchExact×hourBranch", fmt.Sprintf("%d|%d", l.GetDayZhiIndexExact(), l.GetTimeZhiIndex()), js(it.GetTianShen(), it.GetTianShenType(), it.GetTianShenLuck(), it.GetTianShen(), it.GetTianShenType(), it.GetTianShenLuck()), wit)
				fd("dayPillarExact×hourPillar", l.GetDayInGanZhiExact()+"|"+tgz, js(it.GetYi(), it.GetJi(), it.GetYi(), it.GetJi()), wit)
			}
		}
		if d.D == 15 && d.M == 6 && d.Y%100 == 24 {
			l := d.L()
			w.Sample(map[string]interface{}{"day": d.Ymd, "day_pillar": l.GetDayInGanZhi(), "month_pillar": l.GetMonthInGanZhi(), "xiu": l.GetXiu(), "zhi_xing": l.GetZhiXing(), "yi": listStrings(l.GetDayYi())})
		}
	})
	w.R.Transitions += w.R.Evals
}
