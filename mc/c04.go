package main

// C04 — civil arithmetic: Julian Day inverse, additive steps, 1582 gap. Engine E1 (explicit-state
// enumeration of every civil day with lock-step integer reference model R1).

import (
	"fmt"
	"math"
	"time"

	"github.com/6tail/lunar-go/SolarUtil"
	"github.com/6tail/lunar-go/calendar"
)

type hms struct{ h, m, s int }

// Tb: both edges of every two-hour slot at one-second resolution (26 moments).
var tbTimes = func() []hms {
	out := []hms{{0, 0, 0}, {0, 59, 59}}
	for h := 1; h <= 21; h += 2 {
		out = append(out, hms{h, 0, 0}, hms{h + 1, 59, 59})
	}
	out = append(out, hms{23, 0, 0}, hms{23, 59, 59})
	return out
}()

var c04Times = append([]hms{{0, 0, 1}, {11, 59, 59}, {12, 0, 0}, {12, 0, 1}, {23, 59, 58}, {12, 30, 15}}, tbTimes...)

var dayStepsFull = []int{146097, -146097, 146096, -146098, 292194, -292194, 1460970, -1460970, 0, 1, -1, 2, -2, 29, -29, 30, -30, 31, -31, 59, -59, 354, -354, 355, -355, 365, -365, 366, -366, 384, -384, 1000, -1000, 36525, -36525}
var dayStepsQuick = []int{146097, -146097, 146096, -146098, 292194, -292194, 1460970, -1460970, 0, 1, -1, 2, -2, 30, -30, 31, -31, 59, -59, 365, -365, 366, -366, 1000, -1000, 36525, -36525}

// c04Targets: structural days that every state steps to (first and last day, both sides of the 1582 switch, the
// first day of 1582 and the leap days around a Julian/Gregorian century year)
var c04Targets = []int{r1JDN(1, 1, 1), r1JDN(9998, 12, 31), r1JDN(1582, 10, 4), r1JDN(1582, 10, 15), r1JDN(1582, 1, 1), r1JDN(1500, 2, 29), r1JDN(1600, 2, 29), r1JDN(2000, 2, 29)}

// c04CmpTimes: moment alphabet of the comparison matrix (neighbouring seconds, minutes and hours at both ends of the day)
var c04CmpTimes = []hms{{0, 0, 0}, {0, 0, 1}, {0, 0, 59}, {0, 1, 0}, {0, 59, 59}, {1, 0, 0}, {12, 30, 15}, {12, 30, 16}, {12, 31, 15}, {13, 30, 15}, {23, 59, 0}, {23, 59, 58}, {23, 59, 59}}

var hourSteps = []int{3506328, -3506328, 1, -1, 23, -23, 24, -24, 25, -25, 1000, -1000}
var monthSteps = []int{4800, -4800, 1, -1, 11, -11, 12, -12, 13, -13, 1200, -1200}
var yearSteps = []int{1, -1, 4, -4, 100, -100, 400, -400, 800, -800, 2000, -2000}

var jdnLast = jdnGregorian(9999, 12, 31)

// solarEq: the object carries exactly these fields and answers like that date-time — the weekday of that day and a
// Julian Day within the rounding half second of it (an object reached by stepping or conversion must not remember
// anything else about where it came from).
func solarEq(s *calendar.Solar, y, m, d, h, mi, sec int) bool {
	if !(s.GetYear() == y && s.GetMonth() == m && s.GetDay() == d && s.GetHour() == h && s.GetMinute() == mi && s.GetSecond() == sec) {
		return false
	}
	j := r1JDN(y, m, d)
	return s.GetWeek() == r1Weekday(j) && math.Abs(s.GetJulianDay()-(float64(j)-0.5+float64(h*3600+mi*60+sec)/86400)) <= 0.5001/86400
}

func init() {
	register(&Check{
		ID:   "C04",
		Rule: "explicit-state enumeration of every civil day in the year set (thorough: 0001-01-01..9998-12-31; quick: seam windows + stride years) x time alphabet (slot edges, noon/midnight +-1s) x step alphabets (days, hours, months, years); each transition compared in lock-step with integer reference model R1. non-trivial = (state,step) transitions that cross a month boundary or the 1582 switch, plus sub-second JD inverse cases that carry into the next day",
		Assume: []string{"R1 integer proleptic Julian/Gregorian day-number arithmetic in the harness is correct (cross-checked against itself: r1FromJDN(r1JDN(x))==x on every state)",
			"float64 Julian Day comparison uses a 2e-9 day tolerance (4 ulp at 2.4e6)"},
		Shards: func(tier string, seed int64) []Shard {
			sh := yearShardsWith(tier, seed, 9998, "days", append(cycleYears(), 1844, 1867, 1892, 1993, 1994, 2011)) // + years in which some time zone skipped or repeated a civil day
			sh = append(sh, Shard{Kind: "seconds", Tier: tier, Seed: seed})
			sh = append(sh, Shard{Kind: "pairs", Tier: tier, Seed: seed})
			for i := range c04Zones {
				sh = append(sh, Shard{Kind: "zones", Arg: fmt.Sprint(i), Tier: tier, Seed: seed})
			}
			return sh
		},
		Run: runC04,
		Bounds: func(tier string) map[string]interface{} {
			return map[string]interface{}{"day_steps": dayStepsFull, "hour_steps": hourSteps, "month_steps": monthSteps, "year_steps": yearSteps, "times": len(c04Times), "subsecond_offsets_s": tsub, "not_enumerated": "all 3e11 seconds and all real Julian Days: reduced to boundary alphabets on every day plus all 86400 seconds of structural days"}
		},
		MinNontrivial: 100,
	})
}

var tsub = []float64{-0.6, -0.51, -0.4, -0.001, 0, 0.001, 0.4, 0.49}

// runC04Pairs: differences asked back to back whose year pairs are related bit-wise: (f, t) directly after
// (f xor b, t +- 2^k) for b in {0,1,2,3} and k = 6..13. Each answer is compared with the reference, so whatever the
// first question leaves behind (a one-entry memo with a packed or truncated key) must not change the second.
func runC04Pairs(w *W) {
	type ymd struct{ y, m, d int }
	ask := func(a, b ymd, ctx string) {
		if a.y < 1 || a.y > 9998 || b.y < 1 || b.y > 9998 || !r1Valid(a.y, a.m, a.d) || !r1Valid(b.y, b.m, b.d) {
			return
		}
		want := r1JDN(b.y, b.m, b.d) - r1JDN(a.y, a.m, a.d)
		var g1, g2, g3 int
		if msg, p := try(func() {
			sa, sb := calendar.NewSolarFromYmd(a.y, a.m, a.d), calendar.NewSolarFromYmd(b.y, b.m, b.d)
			g1 = SolarUtil.GetDaysBetween(a.y, a.m, a.d, b.y, b.m, b.d)
			g2 = sb.Subtract(sa)
			g3 = sb.SubtractMinute(sa)
		}); p {
			w.Viol("C04:pairs:panic", fmt.Sprintf("difference %v..%v panicked %s: %s", a, b, ctx, msg), ctx)
			return
		}
		w.R.Evals += 3
		w.R.Transitions++
		if g1 != want || g2 != want || g3 != want*1440 {
			w.Viol(fmt.Sprintf("C04:pairs:%04d-%04d", a.y, b.y), fmt.Sprintf("%04d-%02d-%02d..%04d-%02d-%02d asked %s: GetDaysBetween=%d Subtract=%d SubtractMinute=%d, day count says %d", a.y, a.m, a.d, b.y, b.m, b.d, ctx, g1, g2, g3, want), ctx)
		}
	}
	for _, f := range []int{1, 2, 100, 301, 1583, 1806, 2023, 2024} {
		for _, gap := range []int{0, 1, 7, 223, 507, 1000} {
			t := f + gap
			a, b := ymd{f, 3, 1}, ymd{t, 6, 15}
			for _, bit := range []int{0, 1, 2, 3} {
				for k := 6; k <= 13; k++ {
					for _, sg := range []int{1, -1} {
						a2, b2 := ymd{f ^ bit, 3, 1}, ymd{t + sg*(1<<k), 6, 15}
						ctx := fmt.Sprintf("directly after %04d..%04d", a2.y, b2.y)
						ask(a2, b2, "first")
						ask(a, b, ctx)
						ask(b2, a2, "first (reversed)")
						ask(b, a, ctx+" (reversed)")
						w.R.States++
						w.R.Nontrivial++
					}
				}
			}
		}
	}
}

// c04Zones: process time zones with civil-time anomalies (a skipped civil day at the date line, a repeated one, clock
// changes of 30 and 60 minutes, changes at midnight). The library's civil arithmetic is zone-free; under each zone all
// days of the years in which the zone's anomalies fall are stepped by days and hours and compared with the reference.
var c04Zones = []string{"Pacific/Apia", "Pacific/Kiritimati", "Pacific/Kwajalein", "Asia/Manila", "America/Anchorage", "Pacific/Pago_Pago", "Asia/Shanghai", "America/New_York", "America/Havana", "Australia/Lord_Howe", "Europe/London", "UTC"}

func runC04Zones(w *W) {
	zone := c04Zones[atoi(w.Shard.Arg)%len(c04Zones)]
	loc, err := time.LoadLocation(zone)
	if err != nil {
		w.R.Notes = append(w.R.Notes, "time zone "+zone+" unavailable: "+err.Error())
		return
	}
	time.Local = loc
	for _, y := range []int{1844, 1867, 1892, 1986, 1993, 1994, 2011, 2024} {
		for j := r1JDN(y, 1, 1) - 2; j <= r1JDN(y, 12, 31)+2; j++ {
			cy, cm, cd := r1FromJDN(j)
			ymd := fmt.Sprintf("%04d-%02d-%02d", cy, cm, cd)
			w.R.States++
			if msg, p := try(func() {
				for _, t := range []hms{{0, 30, 0}, {12, 0, 0}, {23, 30, 0}} {
					s := calendar.NewSolar(cy, cm, cd, t.h, t.m, t.s)
					if !solarEq(s, cy, cm, cd, t.h, t.m, t.s) || !solarEq(calendar.NewSolarFromJulianDay(s.GetJulianDay()), cy, cm, cd, t.h, t.m, t.s) {
						w.Viol("C04:zones:fields:"+zone+":"+ymd, fmt.Sprintf("under TZ=%s the date-time %s %v does not keep its fields / Julian Day", zone, ymd, t), ymd)
					}
					for _, n := range []int{0, 1, -1, 2, -2, 30, -30, 366, -366} {
						ty, tm, td := r1FromJDN(j + n)
						w.R.Transitions++
						if a, b := s.NextDay(n), s.Next(n, false); !solarEq(a, ty, tm, td, t.h, t.m, t.s) || !solarEq(b, ty, tm, td, t.h, t.m, t.s) || a.Subtract(s) != n {
							w.Viol("C04:zones:NextDay:"+zone+":"+ymd, fmt.Sprintf("under TZ=%s %s.NextDay(%d) = %s, Next(%d,false) = %s, reference %04d-%02d-%02d", zone, s.ToYmdHms(), n, a.ToYmdHms(), n, b.ToYmdHms(), ty, tm, td), ymd)
						}
					}
					for _, hN := range []int{1, -1, 24, -24, 25, -25, 48} {
						tot := j*24 + t.h + hN
						ty, tm, td := r1FromJDN(tot / 24)
						w.R.Transitions++
						if a := s.NextHour(hN); !solarEq(a, ty, tm, td, tot%24, t.m, t.s) {
							w.Viol("C04:zones:NextHour:"+zone+":"+ymd, fmt.Sprintf("under TZ=%s %s.NextHour(%d) = %s, reference %04d-%02d-%02d %02d", zone, s.ToYmdHms(), hN, a.ToYmdHms(), ty, tm, td, tot%24), ymd)
						}
					}
					l := s.GetLunar()
					for _, n := range []int{1, -1, 0} {
						if a, b := l.Next(n), s.NextDay(n).GetLunar(); fieldDigest(a) != fieldDigest(b) || !solarEq(a.GetSolar(), func() int { y, _, _ := r1FromJDN(j + n); return y }(), func() int { _, m, _ := r1FromJDN(j + n); return m }(), func() int { _, _, d := r1FromJDN(j + n); return d }(), t.h, t.m, t.s) {
							w.Viol("C04:zones:LunarNext:"+zone+":"+ymd, fmt.Sprintf("under TZ=%s the lunar date of %s stepped by %d lands on %s", zone, s.ToYmdHms(), n, a.GetSolar().ToYmdHms()), ymd)
						}
					}
				}
			}); p {
				w.Viol("C04:zones:panic:"+zone, "panic under TZ="+zone+" on "+ymd+": "+msg, ymd)
			}
		}
	}
	w.R.Nontrivial += w.R.Transitions
	w.Sample(map[string]interface{}{"zone": zone, "years": []int{1844, 1867, 1892, 1986, 1993, 1994, 2011, 2024}})
}

func runC04(w *W) {
	if w.Shard.Kind == "zones" {
		runC04Zones(w)
		return
	}
	if w.Shard.Kind == "seconds" {
		runC04Seconds(w)
		return
	}
	if w.Shard.Kind == "pairs" {
		runC04Pairs(w)
		return
	}
	steps := dayStepsQuick
	if w.Thorough() {
		steps = dayStepsFull
	}
	for _, r := range w.Shard.Ranges {
		j0, j1 := rangeJDN(r)
		var prev *calendar.Solar
		for j := j0; j <= j1; j++ {
			y, m, d := r1FromJDN(j)
			if r1JDN(y, m, d) != j || !r1Valid(y, m, d) {
				panic("R1 self-check failed")
			}
			ymd := fmt.Sprintf("%04d-%02d-%02d", y, m, d)
			var s *calendar.Solar
			if msg, p := try(func() { s = calendar.NewSolarFromYmd(y, m, d) }); p {
				w.Viol("C04:NewSolarFromYmd:panic:"+ymd, "valid civil date rejected: "+msg, ymd)
				prev = nil
				continue
			}
			w.R.States++
			// edge from previous state through the library's own NextDay(1)
			if prev != nil {
				var n *calendar.Solar
				if msg, p := try(func() { n = prev.NextDay(1) }); p {
					w.Viol("C04:NextDay:panic:"+ymd, "NextDay(1) panicked before "+ymd+": "+msg, ymd)
				} else {
					w.R.Transitions++
					w.R.Traces++
					if !solarEq(n, y, m, d, 0, 0, 0) {
						w.Viol("C04:NextDay(1):"+ymd, fmt.Sprintf("NextDay(1) from previous day gave %s, reference %s", n.ToYmdHms(), ymd), ymd)
					}
				}
			}
			prev = s
			// weekday
			if s.GetWeek() != r1Weekday(j) || SolarUtil.GetWeek(y, m, d) != r1Weekday(j) {
				w.Viol("C04:GetWeek:"+ymd, fmt.Sprintf("weekday %d, reference %d", s.GetWeek(), r1Weekday(j)), ymd)
			}
			// calendar tables
			if SolarUtil.GetDaysOfMonth(y, m) != r1DaysInMonth(y, m) {
				w.Viol(fmt.Sprintf("C04:GetDaysOfMonth:%04d-%02d", y, m), fmt.Sprintf("GetDaysOfMonth=%d reference %d", SolarUtil.GetDaysOfMonth(y, m), r1DaysInMonth(y, m)), ymd)
			}
			if got, want := SolarUtil.GetDaysInYear(y, m, d), j-r1JDN(y, 1, 1)+1; got != want {
				w.Viol("C04:GetDaysInYear:"+ymd, fmt.Sprintf("GetDaysInYear=%d reference %d", got, want), ymd)
			}
			if m == 1 && d == 1 {
				wantDays := r1JDN(y+1, 1, 1) - j
				if SolarUtil.GetDaysOfYear(y) != wantDays {
					w.Viol(fmt.Sprintf("C04:GetDaysOfYear:%04d", y), fmt.Sprintf("GetDaysOfYear=%d reference %d", SolarUtil.GetDaysOfYear(y), wantDays), y)
				}
				if SolarUtil.IsLeapYear(y) != (wantDays == 366) && y != 1582 {
					w.Viol(fmt.Sprintf("C04:IsLeapYear:%04d", y), "IsLeapYear disagrees with year length", y)
				}
			}
			// JD forward and inverse on the time alphabet
			for _, t := range c04Times {
				var st *calendar.Solar
				if msg, p := try(func() { st = calendar.NewSolar(y, m, d, t.h, t.m, t.s) }); p {
					w.Viol("C04:NewSolar:panic:"+ymd, msg, ymd)
					continue
				}
				jd := st.GetJulianDay()
				want := float64(j) - 0.5 + float64(t.h*3600+t.m*60+t.s)/86400
				w.R.Evals++
				if math.Abs(jd-want) > 2e-9 {
					w.Viol("C04:GetJulianDay:"+ymd, fmt.Sprintf("GetJulianDay(%s)=%.9f reference %.9f", st.ToYmdHms(), jd, want), st.ToYmdHms())
				}
				var back *calendar.Solar
				if msg, p := try(func() { back = calendar.NewSolarFromJulianDay(jd) }); p {
					w.Viol("C04:NewSolarFromJulianDay:panic:"+st.ToYmdHms(), "inverse of own Julian Day panicked: "+msg, st.ToYmdHms())
					continue
				}
				w.R.Transitions++
				w.R.Traces++
				if !solarEq(back, y, m, d, t.h, t.m, t.s) {
					w.Viol("C04:JDroundtrip:"+st.ToYmdHms(), fmt.Sprintf("NewSolarFromJulianDay(GetJulianDay(%s)) = %s", st.ToYmdHms(), back.ToYmdHms()), st.ToYmdHms())
				}
			}
			// real-valued inverse around midnight (start of this day) and noon
			for _, base := range []float64{float64(j) - 0.5, float64(j)} {
				for _, off := range tsub {
					jd := base + off/86400
					// reference: nearest second
					secs := math.Round((jd - (float64(jdnFirst) - 0.5)) * 86400)
					rj := jdnFirst + int(math.Floor(secs/86400))
					rs := int(secs - math.Floor(secs/86400)*86400)
					if rj < jdnFirst || rj > jdnLast {
						continue
					}
					ry, rm, rd := r1FromJDN(rj)
					var got *calendar.Solar
					w.R.Evals++
					msg, p := try(func() { got = calendar.NewSolarFromJulianDay(jd) })
					carries := rj != int(math.Floor(jd+0.5))
					if carries {
						w.R.Nontrivial++
					}
					if p {
						fp := fmt.Sprintf("C04:NewSolarFromJulianDay:panic:%04d-%02d-%02d", ry, rm, rd)
						if carries && (rd == 1 || (ry == 1582 && rm == 10 && rd == 15)) {
							fp = "C04:NewSolarFromJulianDay:panic:day-carry-at-month-end"
						}
						w.ViolT(fp, fmt.Sprintf("NewSolarFromJulianDay(%.9f) panicked (%s); the instant rounds to %04d-%02d-%02d %02d:%02d:%02d", jd, msg, ry, rm, rd, rs/3600, rs/60%60, rs%60), jd,
							fmt.Sprintf("func TestReplay(t *testing.T) { calendar.NewSolarFromJulianDay(%.9f) }", jd))
						continue
					}
					w.R.Transitions++
					// accept either neighbour second when the offset is within 1e-4 s of a rounding tie
					if !solarEq(got, ry, rm, rd, rs/3600, rs/60%60, rs%60) {
						frac := math.Abs(math.Abs(off) - 0.5)
						if frac < 1e-3 {
							continue
						}
						w.Viol("C04:JDinverse:"+ymd, fmt.Sprintf("NewSolarFromJulianDay(%.9f) = %s, nearest valid second is %04d-%02d-%02d %02d:%02d:%02d", jd, got.ToYmdHms(), ry, rm, rd, rs/3600, rs/60%60, rs%60), jd)
						continue
					}
					// the object answers like the same date-time built from its fields: weekday of its own day, a
					// Julian Day within the rounding half second, one-day steps from its own day
					wantJD := float64(rj) - 0.5 + float64(rs)/86400
					if got.GetWeek() != r1Weekday(rj) || math.Abs(got.GetJulianDay()-wantJD) > 0.5001/86400 || got.Subtract(s) != rj-j || got.NextDay(0).ToYmdHms() != got.ToYmdHms() {
						w.Viol("C04:JDinverse:object:"+ymd, fmt.Sprintf("NewSolarFromJulianDay(%.9f) prints %s but answers weekday %d (reference %d), Julian Day %.9f (its fields give %.9f), Subtract(%s)=%d",
							jd, got.ToYmdHms(), got.GetWeek(), r1Weekday(rj), got.GetJulianDay(), wantJD, ymd, got.Subtract(s)), jd)
					}
				}
			}
			// day steps: the step alphabet (incl. whole 400-year cycles of 146097 days) and, from every state, the step that
			// lands exactly on each structural day
			stepsHere := append([]int{}, steps...)
			for k, tj := range c04Targets {
				// (a far step costs the library one loop iteration per month crossed: the quick tier takes one target per
				// state, rotating with the day number; the thorough tier a second one)
				if tj != j && (k == j%len(c04Targets) || (w.Thorough() && k == (j/8+3)%len(c04Targets))) {
					stepsHere = append(stepsHere, tj-j)
				}
			}
			for _, n := range stepsHere {
				tj := j + n
				if tj < jdnFirst || tj > jdnLast {
					continue
				}
				ty, tm, td := r1FromJDN(tj)
				var sn *calendar.Solar
				if msg, p := try(func() { sn = s.NextDay(n) }); p {
					w.Viol(fmt.Sprintf("C04:NextDay(%d):panic:%s", n, ymd), msg, ymd)
					continue
				}
				w.R.Transitions++
				w.R.Traces++
				if ty != y || tm != m {
					w.R.Nontrivial++
				}
				if !solarEq(sn, ty, tm, td, 0, 0, 0) {
					w.Viol(fmt.Sprintf("C04:NextDay(%d):%s", n, ymd), fmt.Sprintf("%s.NextDay(%d) = %s, reference %04d-%02d-%02d", ymd, n, sn.ToYmdHms(), ty, tm, td), ymd)
					continue
				}
				if s2 := s.Next(n, false); !solarEq(s2, ty, tm, td, 0, 0, 0) {
					w.Viol(fmt.Sprintf("C04:Next(%d,false):%s", n, ymd), "Next(n,false) differs from NextDay(n)", ymd)
				}
				// undone by -n
				if bk := sn.NextDay(-n); !solarEq(bk, y, m, d, 0, 0, 0) {
					w.Viol(fmt.Sprintf("C04:NextDay(%d)undo:%s", n, ymd), fmt.Sprintf("%s.NextDay(%d).NextDay(%d) = %s", ymd, n, -n, bk.ToYmdHms()), ymd)
				}
				// JD changes by exactly n
				if dj := sn.GetJulianDay() - s.GetJulianDay(); dj != float64(n) {
					w.Viol(fmt.Sprintf("C04:JDdelta(%d):%s", n, ymd), fmt.Sprintf("Julian Day changed by %v stepping %d days", dj, n), ymd)
				}
				if g1, g2 := SolarUtil.GetDaysBetween(y, m, d, ty, tm, td), SolarUtil.GetDaysBetween(ty, tm, td, y, m, d); g1 != n || g2 != -n {
					w.Viol(fmt.Sprintf("C04:GetDaysBetween:%s:%d", ymd, n), fmt.Sprintf("GetDaysBetween(%s -> %04d-%02d-%02d) = %d and reversed %d, day count says %d", ymd, ty, tm, td, g1, g2, n), ymd)
				}
				// Subtract / SubtractMinute / comparisons on (state, stepped state)
				if got := sn.Subtract(s); got != n {
					w.Viol(fmt.Sprintf("C04:Subtract:%s:%d", ymd, n), fmt.Sprintf("%s.Subtract(%s) = %d, reference %d", sn.ToYmd(), ymd, got, n), ymd)
				}
				a := calendar.NewSolar(ty, tm, td, 7, 15, 59)
				b := calendar.NewSolar(y, m, d, 22, 40, 0)
				if got, want := a.SubtractMinute(b), n*1440+(7*60+15)-(22*60+40); got != want {
					w.Viol(fmt.Sprintf("C04:SubtractMinute:%s:%d", ymd, n), fmt.Sprintf("%s.SubtractMinute(%s) = %d, reference %d", a.ToYmdHms(), b.ToYmdHms(), got, want), ymd)
				}
				if got, want := b.SubtractMinute(a), -(n*1440 + (7*60 + 15) - (22*60 + 40)); got != want {
					w.Viol(fmt.Sprintf("C04:SubtractMinute:%s:%d", ymd, n), fmt.Sprintf("%s.SubtractMinute(%s) = %d, reference %d", b.ToYmdHms(), a.ToYmdHms(), got, want), ymd)
				}
				// a is after b iff instant(a) > instant(b)
				ia, ib := int64(tj)*86400+7*3600+15*60+59, int64(j)*86400+22*3600+40*60
				if a.IsAfter(b) != (ia > ib) || a.IsBefore(b) != (ia < ib) || b.IsAfter(a) != (ib > ia) || b.IsBefore(a) != (ib < ia) {
					w.Viol(fmt.Sprintf("C04:IsBeforeAfter:%s:%d", ymd, n), "IsBefore/IsAfter disagree with instant order for "+a.ToYmdHms()+" vs "+b.ToYmdHms(), ymd)
				}
				w.R.Evals += 6
			}
			// comparison / difference matrix at one-second resolution: every ordered pair of the moment alphabet
			// on this day and on (this day, next day)
			if j+1 <= jdnLast {
				ny, nm, nd := r1FromJDN(j + 1)
				var today, next []*calendar.Solar
				for _, t := range c04CmpTimes {
					today = append(today, calendar.NewSolar(y, m, d, t.h, t.m, t.s))
					next = append(next, calendar.NewSolar(ny, nm, nd, t.h, t.m, t.s))
				}
				if j%2 == 1 {
					// ask first: on every second day the objects have answered other questions (Julian Day, weekday, printed
					// form) before they are compared and subtracted
					for _, o := range append(append([]*calendar.Solar{}, today...), next...) {
						o.GetJulianDay()
						o.GetWeek()
						_ = o.ToYmdHms()
					}
				}
				for i, a := range today {
					ti := c04CmpTimes[i]
					ia := ti.h*3600 + ti.m*60 + ti.s
					for k := range c04CmpTimes {
						tk := c04CmpTimes[k]
						for dd, b := range []*calendar.Solar{today[k], next[k]} {
							ib := dd*86400 + tk.h*3600 + tk.m*60 + tk.s
							w.R.Evals += 6
							if a.IsAfter(b) != (ia > ib) || a.IsBefore(b) != (ia < ib) || b.IsAfter(a) != (ib > ia) || b.IsBefore(a) != (ib < ia) {
								w.Viol("C04:IsBeforeAfter:matrix:"+ymd, "IsBefore/IsAfter disagree with instant order for "+a.ToYmdHms()+" vs "+b.ToYmdHms(), ymd)
							}
							if got := b.Subtract(a); got != dd {
								w.Viol("C04:Subtract:matrix:"+ymd, fmt.Sprintf("%s.Subtract(%s) = %d, day count says %d", b.ToYmdHms(), a.ToYmdHms(), got, dd), ymd)
							}
							if got, want := b.SubtractMinute(a), dd*1440+(tk.h*60+tk.m)-(ti.h*60+ti.m); got != want {
								w.Viol("C04:SubtractMinute:matrix:"+ymd, fmt.Sprintf("%s.SubtractMinute(%s) = %d, reference %d", b.ToYmdHms(), a.ToYmdHms(), got, want), ymd)
							}
						}
					}
				}
			}
			// additivity NextDay(a).NextDay(b) == NextDay(a+b)
			for _, ab := range [][2]int{{1, 1}, {31, -30}, {-31, 59}, {365, 1}, {-366, 1000}, {59, 306}} {
				tj := j + ab[0] + ab[1]
				mj := j + ab[0]
				if tj < jdnFirst || tj > jdnLast || mj < jdnFirst || mj > jdnLast {
					continue
				}
				var x, z *calendar.Solar
				if msg, p := try(func() { x = s.NextDay(ab[0]).NextDay(ab[1]); z = s.NextDay(ab[0] + ab[1]) }); p {
					w.Viol("C04:NextDay:additive:panic:"+ymd, msg, ymd)
					continue
				}
				w.R.Transitions += 2
				if x.ToYmdHms() != z.ToYmdHms() {
					w.Viol("C04:NextDay:additive:"+ymd, fmt.Sprintf("%s NextDay(%d).NextDay(%d)=%s but NextDay(%d)=%s", ymd, ab[0], ab[1], x.ToYmd(), ab[0]+ab[1], z.ToYmd()), ymd)
				}
			}
			// hour steps
			for _, t := range []hms{{0, 0, 0}, {12, 30, 15}, {23, 59, 59}} {
				st := calendar.NewSolar(y, m, d, t.h, t.m, t.s)
				for _, hN := range hourSteps {
					tot := j*24 + t.h + hN
					tj := tot / 24
					th := tot % 24
					if tj < jdnFirst+1 || tj > jdnLast-1 {
						continue
					}
					ty, tm, td := r1FromJDN(tj)
					var sn *calendar.Solar
					if msg, p := try(func() { sn = st.NextHour(hN) }); p {
						w.Viol(fmt.Sprintf("C04:NextHour(%d):panic:%s", hN, ymd), msg, st.ToYmdHms())
						continue
					}
					w.R.Transitions++
					w.R.Traces++
					if tj != j {
						w.R.Nontrivial++
					}
					if !solarEq(sn, ty, tm, td, th, t.m, t.s) {
						w.Viol(fmt.Sprintf("C04:NextHour(%d):%s", hN, ymd), fmt.Sprintf("%s.NextHour(%d) = %s, reference %04d-%02d-%02d %02d", st.ToYmdHms(), hN, sn.ToYmdHms(), ty, tm, td, th), st.ToYmdHms())
					}
				}
			}
			// month steps
			for _, n := range monthSteps {
				ty, tm, td := r1AddMonths(y, m, d, n)
				if ty < 1 || ty > 9999 {
					continue
				}
				var sn *calendar.Solar
				if msg, p := try(func() { sn = calendar.NewSolar(y, m, d, 13, 14, 15).NextMonth(n) }); p {
					w.Viol(fmt.Sprintf("C04:NextMonth(%d):panic:%s", n, ymd), msg, ymd)
					continue
				}
				w.R.Transitions++
				w.R.Traces++
				if td != d {
					w.R.Nontrivial++
				}
				if !solarEq(sn, ty, tm, td, 13, 14, 15) {
					w.Viol(fmt.Sprintf("C04:NextMonth(%d):%s", n, ymd), fmt.Sprintf("%s.NextMonth(%d) = %s, reference %04d-%02d-%02d", ymd, n, sn.ToYmdHms(), ty, tm, td), ymd)
				}
			}
			// year steps
			for _, n := range yearSteps {
				ty, tm, td := r1AddMonths(y, m, d, 12*n)
				if ty < 1 || ty > 9999 {
					continue
				}
				var sn *calendar.Solar
				if msg, p := try(func() { sn = calendar.NewSolar(y, m, d, 13, 14, 15).NextYear(n) }); p {
					w.Viol(fmt.Sprintf("C04:NextYear(%d):panic:%s", n, ymd), msg, ymd)
					continue
				}
				w.R.Transitions++
				w.R.Traces++
				if !solarEq(sn, ty, tm, td, 13, 14, 15) {
					w.Viol(fmt.Sprintf("C04:NextYear(%d):%s", n, ymd), fmt.Sprintf("%s.NextYear(%d) = %s, reference %04d-%02d-%02d", ymd, n, sn.ToYmdHms(), ty, tm, td), ymd)
				}
			}
			if j == j0 {
				w.Sample(map[string]interface{}{"state": ymd, "jdn": j, "weekday": r1Weekday(j), "steps_checked": len(steps) + len(hourSteps)*3 + len(monthSteps) + len(yearSteps), "times": len(c04Times)})
			}
		}
	}
}

// all 86,400 seconds of structural days
func runC04Seconds(w *W) {
	days := [][3]int{{1, 1, 1}, {1, 12, 31}, {1582, 10, 4}, {1582, 10, 15}, {1582, 10, 31}, {1582, 12, 31}, {1600, 2, 28}, {1600, 2, 29}, {1700, 2, 28}, {1700, 3, 1}, {1900, 2, 28}, {2000, 2, 28}, {2000, 2, 29}, {2000, 12, 31}, {2023, 1, 31}, {2023, 2, 28}, {2023, 4, 30}, {2024, 2, 29}, {2024, 12, 31}, {9998, 12, 31}, {4, 2, 29}, {1500, 2, 29}, {2100, 2, 28}, {1899, 12, 31}, {1969, 12, 31}, {1970, 1, 1}}
	if !w.Thorough() {
		days = days[:8]
	}
	for _, dd := range days {
		y, m, d := dd[0], dd[1], dd[2]
		j := r1JDN(y, m, d)
		prevJD := math.Inf(-1)
		w.R.States++
		for sec := 0; sec < 86400; sec++ {
			h, mi, s := sec/3600, sec/60%60, sec%60
			st := calendar.NewSolar(y, m, d, h, mi, s)
			jd := st.GetJulianDay()
			w.R.Evals++
			if !(jd > prevJD) {
				w.Viol(fmt.Sprintf("C04:JDmonotone:%s", st.ToYmdHms()), "Julian Day not strictly increasing over consecutive seconds", st.ToYmdHms())
			}
			prevJD = jd
			if math.Abs(jd-(float64(j)-0.5+float64(sec)/86400)) > 2e-9 {
				w.Viol("C04:GetJulianDay:"+st.ToYmdHms(), fmt.Sprintf("GetJulianDay=%.9f", jd), st.ToYmdHms())
			}
			var back *calendar.Solar
			if msg, p := try(func() { back = calendar.NewSolarFromJulianDay(jd) }); p {
				w.Viol("C04:NewSolarFromJulianDay:panic:"+st.ToYmdHms(), msg, st.ToYmdHms())
				continue
			}
			w.R.Transitions++
			w.R.Traces++
			w.R.Nontrivial++
			if !solarEq(back, y, m, d, h, mi, s) {
				w.Viol("C04:JDroundtrip:"+st.ToYmdHms(), "round trip gave "+back.ToYmdHms(), st.ToYmdHms())
			}
		}
		w.Sample(map[string]interface{}{"all_86400_seconds_of": fmt.Sprintf("%04d-%02d-%02d", y, m, d)})
	}
}
