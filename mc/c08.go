package main

// C08 — every accessor is total on valid dates and returns well-formed values.
// Engine E1 + reflection over the object graph reachable from each state.

import (
	"container/list"
	"fmt"
	"reflect"
	"strings"

	"github.com/6tail/lunar-go/HolidayUtil"
	"github.com/6tail/lunar-go/LunarUtil"
	"github.com/6tail/lunar-go/SolarUtil"
	"github.com/6tail/lunar-go/calendar"
)

func init() {
	register(&Check{
		ID:     "C08",
		Rule:   "every civil day in the year set at a time of day that rotates through the 26 slot edges by day number (quick: the years of the quick set at one rotating time; thorough: the years of the quick set at one rotating time and at every 5th slot edge, plus a light pass over all other days of years 1..9998 at one rotating time that visits the four principal objects Solar, Lunar, EightChar (sect alternating) and LunarTime only — the full graph on every day is about 100 CPU-hours, measured, and is not claimed): the object graph {Solar, Lunar, EightChar x sect, Yun x gender x sect, all DaYun, LiuNian/XiaoYun of every period (first, last and a rotating entry; entries 0,1 of the first two), LiuYue of the first year of the first two periods and of a rotating one, LunarTime + GetTimes, NineStars, Tao, Foto, festivals, LunarYear, LunarMonth, JieQi prev/next/current, Fu, ShuJiu, Holiday, SolarWeek x start 0..6, SolarMonth/Season/HalfYear/Year}; every exported zero-argument method found by reflection is called; oracle: no panic, index ranges, vocabulary membership, non-empty strings except a fixed optional list, no duplicate list entries. non-trivial = method calls on objects that only exist conditionally (Fu, ShuJiu, Holiday, current JieQi, festivals) or at 23:xx",
		Assume: []string{"range/vocabulary rules are keyed by accessor-name suffix (GanIndex 0..9, ZhiIndex 0..11, ...InGanZhi in JIA_ZI, ...ShengXiao in SHENG_XIAO, Position* in POSITION_DESC keys, ...)", "optional strings (may be empty): term name of a day without a term, month foetus god in leap months, pillar/xun of great-fortune period 0, NineStar.GetBaMenInQiMen for the centre star, festival remarks/results"},
		Shards: func(tier string, seed int64) []Shard {
			ys := narrowShards(tier, seed)
			if tier == "thorough" {
				ys = weightedYearShards(tier, seed, 9998, 50, 160)
			}
			return append(ys, Shard{Kind: "tables", Tier: tier, Seed: seed}, Shard{Kind: "yun-gap", Ranges: [][2]int{{1571, 1573}}, Tier: tier, Seed: seed}, Shard{Kind: "yun-gap", Ranges: [][2]int{{1574, 1576}}, Tier: tier, Seed: seed}, Shard{Kind: "yun-gap", Ranges: [][2]int{{1577, 1579}}, Tier: tier, Seed: seed}, Shard{Kind: "yun-gap", Ranges: [][2]int{{1580, 1582}}, Tier: tier, Seed: seed})
		},
		Run:           runC08,
		MinNontrivial: 100,
	})
}

type strset map[string]bool

func setOf(ss ...[]string) strset {
	m := strset{}
	for _, s := range ss {
		for _, x := range s {
			if x != "" {
				m[x] = true
			}
		}
	}
	return m
}
func mapVals(m map[string]string) []string {
	var o []string
	for _, v := range m {
		o = append(o, v)
	}
	return o
}
func mapKeys(m map[string]string) []string {
	var o []string
	for k := range m {
		o = append(o, k)
	}
	return o
}

type c08Rules struct {
	gan, zhi, jiazi, shengxiao, nayin, xun, xunkong, posKeys, posVals, xingzuo, week, xiu, zhixing, tianshen strset
}

func newC08Rules() *c08Rules {
	var xiuNames []string
	for _, v := range LunarUtil.XIU {
		xiuNames = append(xiuNames, v)
	}
	return &c08Rules{
		gan: setOf(LunarUtil.GAN), zhi: setOf(LunarUtil.ZHI), jiazi: setOf(LunarUtil.JIA_ZI), shengxiao: setOf(LunarUtil.SHENG_XIAO),
		nayin: setOf(mapVals(LunarUtil.NAYIN)), xun: setOf(LunarUtil.XUN), xunkong: setOf(LunarUtil.XUN_KONG),
		posKeys: setOf(mapKeys(LunarUtil.POSITION_DESC)), posVals: setOf(mapVals(LunarUtil.POSITION_DESC)),
		xingzuo: setOf(SolarUtil.XINGZUO), week: setOf(SolarUtil.WEEK), xiu: setOf(xiuNames), zhixing: setOf(LunarUtil.ZHI_XING), tianshen: setOf(LunarUtil.TIAN_SHEN),
	}
}

var c08OptionalEmpty = map[string]bool{
	"Lunar.GetJieQi": true, "Lunar.GetJie": true, "Lunar.GetQi": true, "Lunar.GetMonthPositionTai": true,
	"NineStar.GetBaMenInQiMen": true, "TaoFestival.GetRemark": true, "FotoFestival.GetResult": true, "FotoFestival.GetRemark": true,
	"Holiday.GetTarget": false,
}

// methods never called: setters have arguments (not zero-arg) so nothing to skip except these
var c08Skip = map[string]bool{}

var dupViaTables = map[string]bool{"Lunar.GetDayYi": true, "Lunar.GetDayJi": true, "Lunar.GetDayJiShen": true, "Lunar.GetDayXiongSha": true, "Lunar.GetTimeYi": true, "Lunar.GetTimeJi": true, "LunarTime.GetYi": true, "LunarTime.GetJi": true}

func (r *c08Rules) checkResult(w *W, tname, mname string, res MRes, ctx string, period0 bool) {
	full := tname + "." + mname
	if res.Panicked {
		w.ViolT("C08:panic:"+full, fmt.Sprintf("%s panicked on %s: %s", full, ctx, res.Out), ctx, "")
		return
	}
	if len(res.Vals) == 0 {
		return
	}
	v := res.Vals[0]
	bad := func(why string) {
		w.Viol("C08:malformed:"+full, fmt.Sprintf("%s on %s returned %s: %s", full, ctx, clip(res.Out), why), ctx)
	}
	switch v.Kind() {
	case reflect.Int:
		n := int(v.Int())
		switch {
		case strings.Contains(mname, "GanIndex"):
			if n < 0 || n > 9 {
				bad("stem index outside 0..9")
			}
		case strings.Contains(mname, "ZhiIndex"):
			if n < 0 || n > 11 {
				bad("branch index outside 0..11")
			}
		case tname == "NineStar" && mname == "GetIndex":
			if n < 0 || n > 8 {
				bad("star index outside 0..8")
			}
		case tname == "SolarWeek" && mname == "GetIndex":
			if n < 1 || n > 6 {
				bad("week-of-month index outside 1..6")
			}
		case tname == "SolarWeek" && mname == "GetIndexInYear":
			if n < 1 || n > 54 {
				bad("week-of-year index outside 1..54")
			}
		case tname == "SolarSeason" && mname == "GetIndex":
			if n < 1 || n > 4 {
				bad("season index outside 1..4")
			}
		case tname == "SolarHalfYear" && mname == "GetIndex":
			if n < 1 || n > 2 {
				bad("half-year index outside 1..2")
			}
		case tname == "LunarMonth" && mname == "GetIndex":
			if n < 1 || n > 15 {
				bad("month index outside 1..15")
			}
		case mname == "GetWeek":
			if n < 0 || n > 6 {
				bad("weekday outside 0..6")
			}
		case mname == "GetMonth" && strings.HasPrefix(tname, "Solar"):
			if n < 1 || n > 12 {
				bad("civil month outside 1..12")
			}
		case mname == "GetMonth" && (tname == "Lunar" || tname == "LunarMonth" || tname == "LunarTime" || tname == "Tao" || tname == "Foto"):
			if n == 0 || n < -12 || n > 12 {
				bad("lunar month outside -12..-1, 1..12")
			}
		case mname == "GetDay" && (strings.HasPrefix(tname, "Solar") || tname == "Lunar" || tname == "Tao" || tname == "Foto"):
			if n < 1 || n > 31 || (n > 30 && !strings.HasPrefix(tname, "Solar")) {
				bad("day of month out of range")
			}
		case mname == "GetHour":
			if n < 0 || n > 23 {
				bad("hour outside 0..23")
			}
		case mname == "GetMinute" || mname == "GetSecond":
			if n < 0 || n > 59 {
				bad("outside 0..59")
			}
		case mname == "GetIndex":
			if n < 0 || n > 130 {
				bad("index out of range")
			}
		case tname == "Solar" && mname == "GetSalaryRate":
			if n < 1 || n > 3 {
				bad("pay rate outside 1..3")
			}
		}
	case reflect.String:
		s := v.String()
		if tname == "JieQi" && mname == "GetName" {
			// a term object is named with one of the 24 published names (never with an internal table key)
			ok := false
			for _, n := range calendar.JIE_QI {
				if n == s {
					ok = true
				}
			}
			if !ok {
				bad("not one of the 24 solar-term names")
			}
		}
		if s == "" {
			if c08OptionalEmpty[full] || (period0 && tname == "DaYun") {
				return
			}
			bad("empty string")
			return
		}
		in := func(set strset, what string) {
			if !set[s] {
				bad("not in " + what)
			}
		}
		if tname == "LunarYear" && strings.Contains(s, "〇") {
			// the almanac readings of a lunar year count days from New Year's Day to the first day with a given stem or
			// branch (or derive from that): the numeral is one of 一..十二, never zero
			bad("a zero numeral in a reading that counts from one")
		}
		switch {
		case strings.HasSuffix(mname, "InGanZhi") || strings.HasSuffix(mname, "InGanZhiExact") || strings.HasSuffix(mname, "InGanZhiExact2") || strings.HasSuffix(mname, "InGanZhiByLiChun") || mname == "GetGanZhi" ||
			(tname == "EightChar" && (mname == "GetYear" || mname == "GetMonth" || mname == "GetDay" || mname == "GetTime" || mname == "GetTaiYuan" || mname == "GetTaiXi" || mname == "GetMingGong" || mname == "GetShenGong")):
			in(r.jiazi, "JIA_ZI")
		case strings.Contains(mname, "ShengXiao") || mname == "GetShengxiao":
			in(r.shengxiao, "SHENG_XIAO")
		case strings.HasSuffix(mname, "NaYin"):
			in(r.nayin, "NAYIN values")
		case strings.HasSuffix(mname, "XunKong") || strings.HasSuffix(mname, "XunKongExact") || strings.HasSuffix(mname, "XunKongExact2") || strings.HasSuffix(mname, "XunKongByLiChun"):
			in(r.xunkong, "XUN_KONG")
		case strings.HasSuffix(mname, "Xun") || strings.HasSuffix(mname, "XunExact") || strings.HasSuffix(mname, "XunExact2") || strings.HasSuffix(mname, "XunByLiChun"):
			in(r.xun, "XUN")
		case strings.Contains(mname, "Position") && strings.HasSuffix(mname, "Desc"):
			in(r.posVals, "POSITION_DESC values")
		case strings.Contains(mname, "Position") && !strings.Contains(mname, "Tai") && tname != "NineStar":
			in(r.posKeys, "POSITION_DESC keys")
		case strings.Contains(mname, "PositionTaiSui"):
			in(r.posKeys, "POSITION_DESC keys")
		case mname == "GetXingZuo" || mname == "GetXingzuo":
			in(r.xingzuo, "XINGZUO")
		case mname == "GetWeekInChinese":
			in(r.week, "WEEK")
		case tname == "Lunar" && mname == "GetXiu":
			in(r.xiu, "the 28 mansions")
		case mname == "GetZhiXing":
			in(r.zhixing, "ZHI_XING")
		case strings.HasSuffix(mname, "TianShen"):
			in(r.tianshen, "TIAN_SHEN")
		case (strings.HasSuffix(mname, "Gan") || strings.HasSuffix(mname, "GanExact") || strings.HasSuffix(mname, "GanExact2") || strings.HasSuffix(mname, "GanByLiChun")) && !strings.Contains(mname, "PengZu") && !strings.Contains(mname, "ShiShen") && !strings.Contains(mname, "Hide"):
			if strings.Contains(mname, "Chong") || mname == "GetGan" || strings.Contains(mname, "YearGan") || strings.Contains(mname, "MonthGan") || strings.Contains(mname, "DayGan") || strings.Contains(mname, "TimeGan") {
				in(r.gan, "GAN")
			}
		case (strings.HasSuffix(mname, "Zhi") || strings.HasSuffix(mname, "ZhiExact") || strings.HasSuffix(mname, "ZhiExact2") || strings.HasSuffix(mname, "ZhiByLiChun")) && !strings.Contains(mname, "PengZu") && !strings.Contains(mname, "ShiShen") && !strings.Contains(mname, "GanZhi"):
			in(r.zhi, "ZHI")
		case mname == "GetDayChong" || mname == "GetTimeChong" || mname == "GetChong":
			in(r.zhi, "ZHI")
		}
	case reflect.Ptr, reflect.Slice:
		// duplicates in lists of strings
		var items []string
		if l, ok := v.Interface().(*list.List); ok && l != nil {
			for e := l.Front(); e != nil; e = e.Next() {
				if s, ok := e.Value.(string); ok {
					items = append(items, s)
				} else {
					items = append(items, render(reflect.ValueOf(e.Value)))
				}
			}
		} else if ss, ok := v.Interface().([]string); ok {
			items = ss
		} else {
			return
		}
		seen := map[string]bool{}
		for _, it := range items {
			if seen[it] {
				if dupViaTables[full] {
					break // the decoder's whole key space is enumerated by the tables shard, which reports the exact key
				}
				w.Viol("C08:duplicate:"+full+":"+it+":"+hashStr(res.Out)[:8], fmt.Sprintf("%s on %s returned %s: duplicate list entry %s", full, ctx, clip(res.Out), it), ctx)
				break
			}
			seen[it] = true
		}
	}
}

// c08Tables enumerates the complete key space of the packed-string decoders.
func c08Tables(w *W) {
	chk := func(name string, key string, f func() *list.List) {
		var l *list.List
		w.R.Evals++
		w.R.Transitions++
		if msg, p := try(func() { l = f() }); p {
			w.Viol("C08:panic:"+name+":"+key, name+"("+key+") panicked: "+msg, key)
			return
		}
		items := listStrings(l)
		if len(items) == 0 {
			w.Viol("C08:malformed:"+name+":"+key, name+"("+key+") returned an empty list", key)
		}
		seen := map[string]bool{}
		for _, it := range items {
			if it == "" {
				w.Viol("C08:malformed:"+name+":"+key, name+"("+key+") has an empty entry", key)
			}
			if seen[it] {
				w.Viol("C08:duplicate:"+name+":"+key+":"+it, fmt.Sprintf("%s(%s) = %v: duplicate list entry %s", name, key, items, it), key)
				w.R.Nontrivial++
				break
			}
			seen[it] = true
		}
	}
	for a := 0; a < 60; a++ {
		for b := 0; b < 60; b++ {
			ga, gb := gz(a), gz(b)
			chk("LunarUtil.GetDayYi", ga+","+gb, func() *list.List { return LunarUtil.GetDayYi(ga, gb) })
			chk("LunarUtil.GetDayJi", ga+","+gb, func() *list.List { return LunarUtil.GetDayJi(ga, gb) })
			chk("LunarUtil.GetTimeYi", ga+","+gb, func() *list.List { return LunarUtil.GetTimeYi(ga, gb) })
			chk("LunarUtil.GetTimeJi", ga+","+gb, func() *list.List { return LunarUtil.GetTimeJi(ga, gb) })
		}
	}
	for m := -12; m <= 12; m++ {
		if m == 0 {
			continue
		}
		for b := 0; b < 60; b++ {
			gb := gz(b)
			mm := m
			chk("LunarUtil.GetDayJiShen", fmt.Sprintf("%d,%s", m, gb), func() *list.List { return LunarUtil.GetDayJiShen(mm, gb) })
			chk("LunarUtil.GetDayXiongSha", fmt.Sprintf("%d,%s", m, gb), func() *list.List { return LunarUtil.GetDayXiongSha(mm, gb) })
		}
	}
	w.R.States += 60*60 + 24*60
	w.Sample(map[string]interface{}{"decoder_key_space": "GetDayYi/Ji 60x60, GetTimeYi/Ji 60x60, GetDayJiShen/XiongSha 24x60"})
}

func runC08(w *W) {
	if w.Shard.Kind == "tables" {
		c08Tables(w)
		return
	}
	if w.Shard.Kind == "yun-gap" {
		c08YunGap(w)
		return
	}
	shallowSlices = true
	rules := newC08Rules()
	qset := map[int]bool{}
	for _, y := range quickYears(w.Shard.Seed, 9998) {
		qset[y] = true
	}
	visit := func(obj interface{}, ctx string, conditional bool, period0 bool) {
		if obj == nil {
			return
		}
		v := reflect.ValueOf(obj)
		if v.Kind() == reflect.Ptr && v.IsNil() {
			return
		}
		tname := v.Type().Elem().Name()
		for _, res := range callAll(obj, c08Skip) {
			w.R.Evals++
			if conditional {
				w.R.Nontrivial++
			}
			rules.checkResult(w, tname, res.Name, res, ctx, period0)
			// an accessor of a lunar date that returns a year or month object (whatever its name) returns the object of
			// that date's lunar year / month
			if l, ok := obj.(*calendar.Lunar); ok && !res.Panicked && len(res.Vals) == 1 && res.Vals[0].Kind() == reflect.Ptr && !res.Vals[0].IsNil() {
				switch o := res.Vals[0].Interface().(type) {
				case *calendar.LunarYear:
					if o.GetYear() != l.GetYear() {
						w.Viol("C08:malformed:Lunar."+res.Name+":other-year", fmt.Sprintf("Lunar.%s on %s returns the year object of %d, the date's lunar year is %d", res.Name, ctx, o.GetYear(), l.GetYear()), ctx)
					}
				case *calendar.LunarMonth:
					if o.GetYear() != l.GetYear() || o.GetMonth() != l.GetMonth() {
						w.Viol("C08:malformed:Lunar."+res.Name+":other-month", fmt.Sprintf("Lunar.%s on %s returns the month object %d/%d, the date is in %d/%d", res.Name, ctx, o.GetYear(), o.GetMonth(), l.GetYear(), l.GetMonth()), ctx)
					}
				}
			}
		}
		w.DistinctAdd("types", tname)
		w.R.Traces++
	}
	sweepDays(w, "C08", func(d *Day, prev *Day) {
		var times []hms
		times = append(times, tbTimes[d.J%len(tbTimes)])
		if w.Thorough() && qset[d.Y] {
			for i := (d.J + 1) % 5; i < len(tbTimes); i += 5 {
				times = append(times, tbTimes[i])
			}
		}
		for ti, t := range times {
			s := d.At(t.h, t.m, t.s)
			ctx := s.ToYmdHms()
			late := t.h == 23
			w.R.Transitions++
			visit(s, ctx, late, false)
			var l *calendar.Lunar
			if msg, p := try(func() { l = s.GetLunar() }); p {
				w.Viol("C08:panic:Solar.GetLunar", msg+" on "+ctx, ctx)
				continue
			}
			visit(l, ctx, late, false)
			if w.Thorough() && !qset[d.Y] {
				// light pass (all days outside the year set): the four principal objects of the date only
				ec := l.GetEightChar()
				ec.SetSect(1 + d.J%2)
				visit(ec, fmt.Sprintf("%s sect=%d", ctx, 1+d.J%2), late, false)
				visit(l.GetTime(), ctx, late, false)
				continue
			}
			ec := l.GetEightChar()
			combo := (d.J/len(tbTimes) + ti) % 8 // (sect, gender, yunSect) rotates so that every combination meets every time of day
			for _, sect := range []int{1, 2} {
				ec.SetSect(sect)
				visit(ec, fmt.Sprintf("%s sect=%d", ctx, sect), late, false)
				if sect == combo%2+1 {
					g, ys := combo/2%2, combo/4+1
					c08Yun(w, visit, ec, g, ys, fmt.Sprintf("%s sect=%d gender=%d yunSect=%d", ctx, sect, g, ys), d.J)
				}
			}
			ec.SetSect(2)
			lt := l.GetTime()
			visit(lt, ctx, late, false)
			visit(lt.GetNineStar(), ctx+" LunarTime.GetNineStar", late, false)
			visit(l.GetYearNineStar(), ctx+" year star", false, false)
			visit(l.GetMonthNineStar(), ctx+" month star", false, false)
			visit(l.GetDayNineStar(), ctx+" day star", false, false)
			visit(l.GetTimeNineStar(), ctx+" time star", late, false)
			for sect := 1; sect <= 3; sect += 2 {
				visit(l.GetYearNineStarBySect(sect), ctx+" year star sect", false, false)
				visit(l.GetMonthNineStarBySect(sect), ctx+" month star sect", false, false)
			}
			tao, foto := l.GetTao(), l.GetFoto()
			visit(tao, ctx, false, false)
			visit(foto, ctx, false, false)
			if _, p := try(func() {
				for e := tao.GetFestivals().Front(); e != nil; e = e.Next() {
					visit(e.Value, ctx+" Tao festival", true, false)
				}
				for e := foto.GetFestivals().Front(); e != nil; e = e.Next() {
					visit(e.Value, ctx+" Foto festival", true, false)
				}
			}); p {
				// reported through the direct visit of GetFestivals
			}
			for _, jq := range []*calendar.JieQi{l.GetPrevJieQi(), l.GetNextJieQi(), l.GetPrevJie(), l.GetNextJie(), l.GetPrevQi(), l.GetNextQi(),
				l.GetPrevJieQiByWholeDay(true), l.GetNextJieQiByWholeDay(true), l.GetPrevJieByWholeDay(true), l.GetNextJieByWholeDay(true), l.GetPrevQiByWholeDay(true), l.GetNextQiByWholeDay(true)} {
				if jq != nil {
					visit(jq, ctx+" near term", false, false)
				}
			}
			for _, jq := range []*calendar.JieQi{l.GetCurrentJieQi(), l.GetCurrentJie(), l.GetCurrentQi()} {
				if jq != nil {
					visit(jq, ctx+" current term", true, false)
				}
			}
			if fu := l.GetFu(); fu != nil {
				visit(fu, ctx+" Fu", true, false)
			}
			if sj := l.GetShuJiu(); sj != nil {
				visit(sj, ctx+" ShuJiu", true, false)
			}
			if ti > 0 {
				continue
			}
			// ---- day-level objects, once per day
			for k, x := range l.GetTimes() {
				if k%4 == d.J%4 {
					visit(x, fmt.Sprintf("%s GetTimes[%d]", ctx, k), false, false)
				}
			}
			ly := calendar.NewLunarYear(l.GetYear())
			visit(ly, fmt.Sprintf("LunarYear %d", l.GetYear()), false, false)
			visit(ly.GetNineStar(), "LunarYear star", false, false)
			if lm := calendar.NewLunarMonthFromYm(l.GetYear(), l.GetMonth()); lm != nil {
				visit(lm, fmt.Sprintf("LunarMonth %d/%d", l.GetYear(), l.GetMonth()), l.GetMonth() < 0, false)
				visit(lm.GetNineStar(), "LunarMonth star", false, false)
			} else {
				w.Viol("C08:LunarMonth:nil", "no LunarMonth for "+lunarYmd(l), ctx)
			}
			if h := HolidayUtil.GetHolidayByYmd(d.Y, d.M, d.D); h != nil {
				visit(h, ctx+" Holiday", true, false)
			}
			for st := 0; st <= 6; st++ {
				if weekStartOf(d.J, st) < jdnFirst || weekStartOf(d.J, st)+6 > r1JDN(9998, 12, 31) {
					continue
				}
				visit(calendar.NewSolarWeekFromYmd(d.Y, d.M, d.D, st), fmt.Sprintf("SolarWeek %s start=%d", d.Ymd, st), false, false)
			}
			if d.D == 1 || prev == nil {
				visit(calendar.NewSolarMonthFromYm(d.Y, d.M), "SolarMonth "+d.Ymd, false, false)
				visit(calendar.NewSolarSeasonFromYm(d.Y, d.M), "SolarSeason "+d.Ymd, false, false)
				visit(calendar.NewSolarHalfYearFromYm(d.Y, d.M), "SolarHalfYear "+d.Ymd, false, false)
				visit(calendar.NewSolarYearFromYear(d.Y), "SolarYear "+d.Ymd, false, false)
			}
			// ---- objects reached by navigation (steps of both signs, incl. whole years back onto a January): every
			// accessor is total and well-formed on them too
			if ti == 0 {
				nav := func(name string, f func() interface{}) {
					var o interface{}
					if msg, p := try(func() { o = f() }); p {
						w.Viol("C08:panic:nav:"+name, fmt.Sprintf("%s panicked from %s: %s", name, ctx, msg), ctx)
						return
					}
					visit(o, name+" from "+ctx, true, false)
				}
				n := []int{-13, -12, -11, -5, -4, -3, -2, -1, 1, 2, 3, 4, 11, 12, 13, -24, 24}[d.J%17]
				if d.D == 1 || prev == nil || (w.Thorough() && d.J%16 == 0) {
					if y2 := d.Y + n/12 - 2; y2 >= 1 && d.Y+n/12+2 <= 9998 {
						nav(fmt.Sprintf("SolarMonth.Next(%d)", n), func() interface{} { return calendar.NewSolarMonthFromYm(d.Y, d.M).Next(n) })
						nav(fmt.Sprintf("Solar.NextMonth(%d)", n), func() interface{} { return s.NextMonth(n) })
						if lmo := calendar.NewLunarMonthFromYm(l.GetYear(), l.GetMonth()); lmo != nil && l.GetYear() > 30 {
							nav(fmt.Sprintf("LunarMonth.Next(%d)", n), func() interface{} { return lmo.Next(n) })
						}
					}
					if y2 := d.Y + n/4 - 2; y2 >= 1 && d.Y+n/4+2 <= 9998 {
						nav(fmt.Sprintf("SolarSeason.Next(%d)", n), func() interface{} { return calendar.NewSolarSeasonFromYm(d.Y, d.M).Next(n) })
					}
					if y2 := d.Y + n/2 - 2; y2 >= 1 && d.Y+n/2+2 <= 9998 {
						nav(fmt.Sprintf("SolarHalfYear.Next(%d)", n), func() interface{} { return calendar.NewSolarHalfYearFromYm(d.Y, d.M).Next(n) })
					}
					if d.Y+n >= 1 && d.Y+n <= 9998 {
						nav(fmt.Sprintf("SolarYear.Next(%d)", n), func() interface{} { return calendar.NewSolarYearFromYear(d.Y).Next(n) })
						nav(fmt.Sprintf("Solar.NextYear(%d)", n), func() interface{} { return s.NextYear(n) })
						nav(fmt.Sprintf("LunarYear.Next(%d)", n), func() interface{} { return calendar.NewLunarYear(d.Y).Next(n) })
					}
				}
				if (d.J%8 == 1 || (w.Thorough() && d.J%4 == 1)) && d.J+40 <= r1JDN(9998, 12, 31) && d.J-40 >= jdnFirst {
					nav(fmt.Sprintf("Lunar.Next(%d)", n), func() interface{} { return l.Next(n) })
					nav(fmt.Sprintf("Solar.NextDay(%d)", n), func() interface{} { return s.NextDay(n) })
					nav(fmt.Sprintf("Solar.NextHour(%d)", n), func() interface{} { return s.NextHour(n) })
					st := d.J % 7
					nav(fmt.Sprintf("SolarWeek(start %d).Next(%d,false)", st, n), func() interface{} { return calendar.NewSolarWeekFromYmd(d.Y, d.M, d.D, st).Next(n, false) })
					if n >= -5 && n <= 5 {
						nav(fmt.Sprintf("SolarWeek(start %d).Next(%d,true)", st, n), func() interface{} { return calendar.NewSolarWeekFromYmd(d.Y, d.M, d.D, st).Next(n, true) })
					}
				}
			}
			if prev == nil {
				w.Sample(map[string]interface{}{"state": ctx, "lunar": lunarYmd(l), "object_types_visited": len(w.R.Distinct["types"])})
			}
		}
	})
}

func c08Yun(w *W, visit func(interface{}, string, bool, bool), ec *calendar.EightChar, gender, yunSect int, ctx string, rot int) {
	var yun *calendar.Yun
	if msg, p := try(func() { yun = ec.GetYunBySect(gender, yunSect) }); p {
		w.Viol("C08:panic:EightChar.GetYunBySect", msg+" on "+ctx, ctx)
		return
	}
	// periods reaching past year 9998 leave the supported range: the start date itself must be in range
	var start *calendar.Solar
	if _, p := try(func() { start = yun.GetStartSolar() }); p || start.GetYear() > 9880 {
		return
	}
	visit(yun, ctx, false, false)
	var dys []*calendar.DaYun
	if msg, p := try(func() { dys = yun.GetDaYun() }); p {
		w.Viol("C08:panic:Yun.GetDaYun", msg+" on "+ctx, ctx)
		return
	}
	for i, dy := range dys {
		visit(dy, fmt.Sprintf("%s DaYun[%d]", ctx, i), i == 0, i == 0)
		if i > 1 && i%3 != rot%3 {
			continue // later periods: every third one per state, rotating with the day number (each is reached on a third of all days)
		}
		var lns []*calendar.LiuNian
		var xys []*calendar.XiaoYun
		if msg, p := try(func() { lns = dy.GetLiuNian(); xys = dy.GetXiaoYun() }); p {
			w.Viol("C08:panic:DaYun.GetLiuNian/GetXiaoYun", msg+" on "+ctx, ctx)
			continue
		}
		for k, ln := range lns {
			// first two periods: entries 0, 1 and a rotating one; every later period: first, last and a rotating entry
			if i <= 1 && k > 1 && k != rot%10 {
				continue
			}
			if i > 1 && k != 0 && k != len(lns)-1 && k != rot%10 {
				continue
			}
			visit(ln, fmt.Sprintf("%s DaYun[%d].LiuNian[%d]", ctx, i, k), false, false)
			if k == 0 && (i <= 1 || i == rot%10) {
				for q, lyue := range ln.GetLiuYue() {
					visit(lyue, fmt.Sprintf("%s DaYun[%d].LiuNian[0].LiuYue[%d]", ctx, i, q), false, false)
				}
			}
		}
		for k, xy := range xys {
			if i <= 1 && k > 1 && k != rot%10 {
				continue
			}
			if i > 1 && k != 0 && k != len(xys)-1 && k != rot%10 {
				continue
			}
			visit(xy, fmt.Sprintf("%s DaYun[%d].XiaoYun[%d]", ctx, i, k), false, false)
		}
	}
}

// c08YunGap: the fortune start date is birth + (years, months, days, hours); for births in the decade before the
// 1582 calendar gap it can land on or next to 1582-10-05..14. Dense pass: every day 1571..1582 x 26 slot-edge
// times x both genders x both schools x both sects, fortune-level accessors only.
func c08YunGap(w *W) {
	sweepDays(w, "C08", func(d *Day, prev *Day) {
		for _, t := range tbTimes {
			l := d.At(t.h, t.m, t.s).GetLunar()
			ec := l.GetEightChar()
			for sect := 1; sect <= 2; sect++ {
				ec.SetSect(sect)
				for g := 0; g <= 1; g++ {
					for ys := 1; ys <= 2; ys++ {
						ctx := fmt.Sprintf("%s %02d:%02d:%02d sect=%d gender=%d yunSect=%d", d.Ymd, t.h, t.m, t.s, sect, g, ys)
						w.R.Evals++
						w.R.Transitions++
						w.R.Nontrivial++
						msg, p := try(func() {
							yun := ec.GetYunBySect(g, ys)
							st := yun.GetStartSolar()
							if !solarValid(st) {
								panic("invalid start date " + st.ToYmdHms())
							}
							for _, dy := range yun.GetDaYun() {
								_ = dy.GetStartYear() + dy.GetEndYear() + dy.GetStartAge() + dy.GetEndAge()
								_ = dy.GetGanZhi()
							}
						})
						if p {
							w.ViolT("C08:panic:Yun.GetStartSolar/GetDaYun:gap-births", fmt.Sprintf("fortune accessors panicked for the chart %s: %s", ctx, msg), ctx,
								fmt.Sprintf("func TestReplay(t *testing.T) { calendar.NewSolar(%d,%d,%d,%d,%d,%d).GetLunar().GetEightChar().GetYunBySect(%d,%d).GetDaYun() }", d.Y, d.M, d.D, t.h, t.m, t.s, g, ys))
						}
					}
				}
			}
			ec.SetSect(2)
		}
		if prev == nil {
			w.Sample(map[string]interface{}{"gap_births_from": d.Ymd, "charts_per_day": 26 * 8})
		}
	})
}
