package main

// C06 — lunar years well-formed; month navigation consistent. Engine E1 over year tables.

import (
	"fmt"

	"github.com/6tail/lunar-go/calendar"
)

type MonthRec struct {
	Y, M, Days, Index int
	First             float64
}

func (m MonthRec) key() string { return fmt.Sprintf("%d/%d", m.Y, m.M) }

func snapshotYear(y int) []MonthRec {
	ly := calendar.NewLunarYear(y)
	var out []MonthRec
	for e := ly.GetMonths().Front(); e != nil; e = e.Next() {
		m := e.Value.(*calendar.LunarMonth)
		out = append(out, MonthRec{m.GetYear(), m.GetMonth(), m.GetDayCount(), m.GetIndex(), m.GetFirstJulianDay()})
	}
	return out
}

func inReform(y int) bool { return (y >= 8 && y <= 23) || (y >= 236 && y <= 240) }

var monthOffsets = []int{0, 1, -1, 2, -2, 11, -11, 12, -12, 13, -13, 14, -14, 25, -25, 37, -37, 120, -120}

func init() {
	register(&Check{
		ID:     "C06",
		Rule:   "every lunar year table 1..9998 in both tiers, all 15 months each: structural invariants (numbering, leap placement, lengths, contiguity, year length) outside AD 8-23 / 236-240, agreement of every month shared by the tables of adjacent years, table accessors against the table, LunarMonth.Next(n) for the offset alphabet (thorough: every month of every year; quick: the quick-set years) against the globally ordered month sequence assembled from the tables (so Next(n) = n x Next(1)), New Year's Eve / Next(1) at every year end; far jumps: single Next(n) calls with |n| = 12,368 / 30,000 / 120,000 months (thorough: 1,000 .. 120,000) from 8 starts (thorough 16) against the sequence of all months 1..9998. non-trivial = leap months, year-end transitions and months reached across a table boundary",
		Assume: []string{"reform windows AD 8-23 and 236-240 are exempt from the structural clauses exactly as the property states; navigation and cross-table agreement are still checked there"},
		Shards: func(tier string, seed int64) []Shard {
			// every tier builds and checks ALL 9998 tables (structure, agreement, accessors, year end);
			// the quick tier restricts the navigation clause (19 offsets per month) to the quick-set years
			sh := splitRanges([][2]int{{1, 9998}}, 64, Shard{Tier: tier, Seed: seed})
			// far jumps: single Next(n) calls spanning centuries to the whole range, against the global month sequence
			nFar := 8
			if tier == "thorough" {
				nFar = 16
			}
			for k := 0; k < nFar; k++ {
				sh = append(sh, Shard{Kind: "far", Arg: fmt.Sprint(k), Tier: tier, Seed: seed})
			}
			return sh
		},
		Run:           runC06,
		Bounds:        func(tier string) map[string]interface{} { return map[string]interface{}{"month_offsets": monthOffsets} },
		MinNontrivial: 50,
	})
}

// c06Far: the globally ordered sequence of all months of lunar years 1..9998 (each taken from its own year's table),
// and single Next(n) calls with |n| from 1,000 to 120,000 months from a few starts; Next(n) must land on the month n
// positions away, and Next(n).Next(-n) must return to the start.
func c06Far(w *W) {
	var seq []MonthRec
	pos := map[string]int{}
	for y := 1; y <= 9998; y++ {
		var t []MonthRec
		if msg, p := try(func() { t = snapshotYear(y) }); p {
			w.Viol(fmt.Sprintf("C06:NewLunarYear:panic:%d", y), msg, y)
			return
		}
		for _, m := range t {
			if m.Y == y {
				pos[m.key()] = len(seq)
				seq = append(seq, m)
			}
		}
	}
	k := atoi(w.Shard.Arg)
	starts := [][2]int{{241, 1}, {9998, 12}, {300, 1}, {2024, 5}, {1582, 9}, {5000, 7}, {2033, 11}, {1000, 3}, {7777, 10}, {260, 12}, {3333, 2}, {4000, 6}, {9000, 1}, {600, 8}, {2500, 4}, {8000, 9}}
	jumps := []int{12368, -12368, 30000, -30000, 120000, -120000, 120001, -120001, 123400, -123400}
	if w.Thorough() {
		jumps = []int{1000, -1000, 12368, -12368, 24000, -24000, 30000, -30000, 60000, -60000, 120000, -120000, 120001, -120001, 121500, -121500, 123400, -123400}
	}
	for _, st := range starts[k%len(starts) : k%len(starts)+1] {
		i0, ok := pos[fmt.Sprintf("%d/%d", st[0], st[1])]
		if !ok {
			continue
		}
		for _, n := range jumps {
			j := i0 + n
			if j < 0 || j >= len(seq) || seq[j].Y <= 240 {
				continue // (walks that enter the reform windows are judged by the neighbouring-table clause only: the
				// tables of years 18/19 label a shared month differently, a known finding, so positions are ambiguous there)
			}
			var got, back *calendar.LunarMonth
			if msg, p := try(func() {
				got = calendar.NewLunarMonthFromYm(st[0], st[1]).Next(n)
				if got != nil {
					back = got.Next(-n)
				}
			}); p {
				w.Viol(fmt.Sprintf("C06:Next(%d):panic:%d/%d", n, st[0], st[1]), msg, st)
				continue
			}
			w.R.Transitions++
			w.R.Evals++
			w.R.Nontrivial++
			want := seq[j]
			if got == nil || got.GetYear() != want.Y || got.GetMonth() != want.M || got.GetFirstJulianDay() != want.First {
				g := "nil"
				if got != nil {
					g = fmt.Sprintf("%d/%d", got.GetYear(), got.GetMonth())
				}
				w.Viol(fmt.Sprintf("C06:Next(%d):%d/%d", n, st[0], st[1]), fmt.Sprintf("LunarMonth %d/%d .Next(%d) = %s, expected %s (the month %d positions along the sequence of all tables)", st[0], st[1], n, g, want.key(), n), st)
			} else if back == nil || back.GetYear() != st[0] || back.GetMonth() != st[1] {
				w.Viol(fmt.Sprintf("C06:Next(%d)back:%d/%d", n, st[0], st[1]), fmt.Sprintf("LunarMonth %d/%d .Next(%d).Next(%d) does not return to the start", st[0], st[1], n, -n), st)
			}
		}
		w.R.States++
	}
}

func runC06(w *W) {
	if w.Shard.Kind == "far" {
		c06Far(w)
		return
	}
	navYears := map[int]bool{}
	for _, y := range quickYears(w.Shard.Seed, 9998) {
		navYears[y] = true
	}
	for _, r := range w.Shard.Ranges {
		lo, hi := r[0], r[1]
		tabs := map[int][]MonthRec{}
		get := func(y int) []MonthRec {
			if t, ok := tabs[y]; ok {
				return t
			}
			var t []MonthRec
			if msg, p := try(func() { t = snapshotYear(y) }); p {
				w.Viol(fmt.Sprintf("C06:NewLunarYear:panic:%d", y), msg, y)
			}
			tabs[y] = t
			return t
		}
		// global ordered month sequence over [lo-11, hi+11]
		var seq []MonthRec
		pos := map[string]int{}
		for y := lo - 11; y <= hi+11; y++ {
			if y < 1 || y > 9999 {
				continue
			}
			for _, m := range get(y) {
				if m.Y == y {
					if _, dup := pos[m.key()]; dup {
						w.Viol(fmt.Sprintf("C06:duplicate-month:%s", m.key()), "month appears twice among in-year months: "+m.key(), y)
						continue
					}
					pos[m.key()] = len(seq)
					seq = append(seq, m)
				}
			}
		}
		disagree := map[string]bool{}
		for y := lo - 11; y <= hi+11; y++ {
			if y < 1 || y+1 > 9999 {
				continue
			}
			for _, m := range get(y) {
				for _, o := range get(y + 1) {
					if o.First == m.First && (o.Y != m.Y || o.M != m.M) {
						disagree[m.key()] = true
						disagree[o.key()] = true
					}
				}
			}
		}
		for y := lo; y <= hi; y++ {
			t := get(y)
			if t == nil {
				continue
			}
			w.R.States++
			if len(t) != 15 {
				w.Viol(fmt.Sprintf("C06:table-size:%d", y), fmt.Sprintf("year table has %d months", len(t)), y)
				continue
			}
			var in []MonthRec
			for _, m := range t {
				if m.Y == y {
					in = append(in, m)
				}
			}
			// contiguity of all 15 entries and lengths
			for i, m := range t {
				w.R.Evals++
				if !inReform(y) && !inReform(m.Y) {
					if m.Days != 29 && m.Days != 30 {
						w.Viol(fmt.Sprintf("C06:month-length:%s", m.key()), fmt.Sprintf("month %s has %d days", m.key(), m.Days), y)
					}
				}
				if i > 0 {
					w.R.Transitions++
					if m.First != t[i-1].First+float64(t[i-1].Days) {
						w.Viol(fmt.Sprintf("C06:contiguity:%s", m.key()), fmt.Sprintf("month %s starts at JD %.1f but previous month %s starts %.1f with %d days", m.key(), m.First, t[i-1].key(), t[i-1].First, t[i-1].Days), y)
					}
				}
			}
			if !inReform(y) {
				// numbering
				if len(in) != 12 && len(in) != 13 {
					w.Viol(fmt.Sprintf("C06:month-count:%d", y), fmt.Sprintf("lunar year %d has %d months", y, len(in)), y)
				}
				want, leaps, total := 1, 0, 0
				for i, m := range in {
					total += m.Days
					if m.M < 0 {
						leaps++
						w.R.Nontrivial++
						if i == 0 || in[i-1].M != -m.M {
							w.Viol(fmt.Sprintf("C06:leap-placement:%d", y), fmt.Sprintf("leap month %d of %d does not directly follow its namesake", m.M, y), y)
						}
						continue
					}
					if m.M != want {
						w.Viol(fmt.Sprintf("C06:numbering:%d", y), fmt.Sprintf("lunar year %d: month #%d is numbered %d, expected %d", y, i+1, m.M, want), y)
					}
					want++
				}
				if want != 13 || leaps > 1 || (len(in) == 13) != (leaps == 1) {
					w.Viol(fmt.Sprintf("C06:numbering:%d", y), fmt.Sprintf("lunar year %d: regular months up to %d, %d leap months, %d months", y, want-1, leaps, len(in)), y)
				}
				if !((total >= 353 && total <= 355) || (total >= 383 && total <= 385)) {
					w.Viol(fmt.Sprintf("C06:year-length:%d", y), fmt.Sprintf("lunar year %d has %d days", y, total), y)
				}
			}
			// accessors against the table
			ly := calendar.NewLunarYear(y)
			total, leap := 0, 0
			for _, m := range in {
				total += m.Days
				if m.M < 0 {
					leap = -m.M
					break
				}
			}
			total = 0
			for _, m := range in {
				total += m.Days
			}
			if ly.GetDayCount() != total || ly.GetLeapMonth() != leap || ly.GetMonthsInYear().Len() != len(in) || ly.GetYear() != y {
				w.Viol(fmt.Sprintf("C06:accessors:%d", y), fmt.Sprintf("GetDayCount=%d (table %d) GetLeapMonth=%d (table %d) GetMonthsInYear=%d (table %d)", ly.GetDayCount(), total, ly.GetLeapMonth(), leap, ly.GetMonthsInYear().Len(), len(in)), y)
			}
			for mm := -12; mm <= 13; mm++ {
				got := ly.GetMonth(mm)
				var exp *MonthRec
				for i := range in {
					if in[i].M == mm {
						exp = &in[i]
						break
					}
				}
				if (got == nil) != (exp == nil) || (got != nil && (got.GetDayCount() != exp.Days || got.GetFirstJulianDay() != exp.First || got.IsLeap() != (mm < 0) || got.GetYear() != y)) {
					w.Viol(fmt.Sprintf("C06:GetMonth:%d/%d", y, mm), "GetMonth disagrees with the table", y)
				}
				ym := calendar.NewLunarMonthFromYm(y, mm)
				if (ym == nil) != (exp == nil) {
					w.Viol(fmt.Sprintf("C06:NewLunarMonthFromYm:%d/%d", y, mm), "NewLunarMonthFromYm disagrees with the table", y)
				}
			}
			// adjacent tables agree on shared months
			for _, oy := range []int{y - 1, y + 1} {
				if oy < 1 || oy > 9998 {
					continue
				}
				ot := get(oy)
				for _, m := range t {
					for _, o := range ot {
						if o.Y == m.Y && o.M == m.M {
							w.R.Traces++
							if o.Days != m.Days || o.First != m.First {
								w.Viol(fmt.Sprintf("C06:table-agreement:%s", m.key()), fmt.Sprintf("month %s: table %d says %d days from JD %.1f, table %d says %d days from JD %.1f", m.key(), y, m.Days, m.First, oy, o.Days, o.First), y)
							}
						}
					}
				}
				// same first day => same label
				for _, m := range t {
					for _, o := range ot {
						if o.First == m.First && (o.Y != m.Y || o.M != m.M) {
							w.Viol(fmt.Sprintf("C06:table-agreement:label:%s", m.key()), fmt.Sprintf("month starting JD %.1f is %s in table %d but %s in table %d", m.First, m.key(), y, o.key(), oy), y)
						}
					}
				}
			}
			// navigation
			for _, m := range in {
				if !w.Thorough() && !navYears[y] {
					break
				}
				i := pos[m.key()]
				lm := calendar.NewLunarMonthFromYm(m.Y, m.M)
				if lm == nil {
					continue
				}
				for _, n := range monthOffsets {
					k := i + n
					if k < 0 || k >= len(seq) || seq[k].Y < 1 || seq[k].Y > 9998 {
						continue
					}
					var nx *calendar.LunarMonth
					if msg, p := try(func() { nx = lm.Next(n) }); p {
						w.Viol(fmt.Sprintf("C06:Next(%d):panic:%s", n, m.key()), msg, m.key())
						continue
					}
					w.R.Transitions++
					w.R.Traces++
					e := seq[k]
					if e.Y != m.Y {
						w.R.Nontrivial++
					}
					if nx == nil || nx.GetYear() != e.Y || nx.GetMonth() != e.M || nx.GetDayCount() != e.Days || nx.GetFirstJulianDay() != e.First {
						got := "nil"
						if nx != nil {
							got = fmt.Sprintf("%d/%d", nx.GetYear(), nx.GetMonth())
						}
						fp := fmt.Sprintf("C06:Next(%d):%s", n, m.key())
						// class: the walk spans a month on whose label the tables of adjacent years disagree
						a, b := i, k
						if a > b {
							a, b = b, a
						}
						for q := a; q <= b; q++ {
							if disagree[seq[q].key()] {
								fp = "C06:Next:walk-spans-month-labelled-differently-by-adjacent-tables:" + seq[q].key()
								break
							}
						}
						w.Viol(fp, fmt.Sprintf("LunarMonth %s .Next(%d) = %s, expected %s (the month %d steps along the sequence of tables)", m.key(), n, got, e.key(), n), m.key())
						continue
					}
					// the object reached by stepping is as good as a directly built one: a second step from it lands where the
					// sequence says (second offsets rotate); C11 compares its accessors with those of the directly built month
					if !disagree[e.key()] && !inReform(e.Y) {
						n2 := []int{13, -13, 14, 1, -1, 25, -14, 12}[((i+n)%8+8)%8]
						if k2 := k + n2; k2 >= 0 && k2 < len(seq) && seq[k2].Y >= 1 && seq[k2].Y <= 9998 {
							spans := false
							lo, hi := k, k2
							if lo > hi {
								lo, hi = hi, lo
							}
							for q := lo; q <= hi; q++ {
								if disagree[seq[q].key()] || inReform(seq[q].Y) {
									spans = true
								}
							}
							if !spans {
								var nx2 *calendar.LunarMonth
								w.R.Transitions++
								if msg, p := try(func() { nx2 = nx.Next(n2) }); p {
									w.Viol(fmt.Sprintf("C06:Next(%d).Next(%d):panic:%s", n, n2, m.key()), msg, m.key())
								} else if e2 := seq[k2]; nx2 == nil || nx2.GetYear() != e2.Y || nx2.GetMonth() != e2.M || nx2.GetFirstJulianDay() != e2.First {
									got := "nil"
									if nx2 != nil {
										got = fmt.Sprintf("%d/%d", nx2.GetYear(), nx2.GetMonth())
									}
									w.Viol(fmt.Sprintf("C06:Next(%d).Next(%d):%s", n, n2, m.key()), fmt.Sprintf("LunarMonth %s .Next(%d).Next(%d) = %s, expected %s", m.key(), n, n2, got, e2.key()), m.key())
								}
							}
						}
					}
					if n == 1 {
						if e.First != m.First+float64(m.Days) {
							w.Viol(fmt.Sprintf("C06:Next(1)-start:%s", m.key()), "Next(1) does not start the day after the month ends", m.key())
						}
						if bk := nx.Next(-1); bk == nil || bk.GetYear() != m.Y || bk.GetMonth() != m.M {
							w.Viol(fmt.Sprintf("C06:Next(1).Next(-1):%s", m.key()), "Next(1).Next(-1) is not the identity", m.key())
						}
					}
				}
			}
			// year end: last day of the lunar year is followed by 1/1 of the next year
			if len(in) > 0 && y < 9998 {
				last := in[len(in)-1]
				var l, nx *calendar.Lunar
				if msg, p := try(func() { l = calendar.NewLunarFromYmd(last.Y, last.M, last.Days); nx = l.Next(1) }); p {
					w.Viol(fmt.Sprintf("C06:year-end:panic:%d", y), msg, y)
				} else {
					w.R.Transitions++
					w.R.Nontrivial++
					if !inReform(y) && !inReform(y+1) && (nx.GetYear() != y+1 || nx.GetMonth() != 1 || nx.GetDay() != 1) {
						w.Viol(fmt.Sprintf("C06:year-end:%d", y), fmt.Sprintf("day after %s is %s", lunarYmd(l), lunarYmd(nx)), y)
					}
					// the day the library calls New Year's Eve must be followed by 1/1
					for _, f := range listStrings(l.GetFestivals()) {
						if f == "除夕" && !(nx.GetMonth() == 1 && nx.GetDay() == 1) {
							w.Viol(fmt.Sprintf("C06:chuxi:%d", y), "New Year's Eve not followed by 1/1", y)
						}
					}
				}
			}
			if y == lo {
				w.Sample(map[string]interface{}{"year": y, "in_year_months": in})
			}
		}
	}
}
