package main

// C17 — Taoist / Buddhist dates. Engine E1 + functional-dependence tables.

import (
	"fmt"
	"strings"

	"github.com/6tail/lunar-go/FotoUtil"
	"github.com/6tail/lunar-go/TaoUtil"
	"github.com/6tail/lunar-go/calendar"
)

func init() {
	register(&Check{
		ID:            "C17",
		Rule:          "every civil day in the year set (thorough: all days 1..9998) at noon (slot-edge times rotate by day number for the constructor round trips): Tao/Foto year-month-day against lunar year +2697/+544, NewTao/NewFoto(fields) -> same moment -> same fields, every day-class predicate recorded in a functional-dependence table keyed by (signed lunar month, lunar day, day pillar, day's term) and compared with membership in the exported TaoUtil/FotoUtil tables for non-leap months. non-trivial = days in leap months, days whose lunar year differs from the civil year, and days on which some predicate is true",
		Assume:        []string{"the six-fasting-day predicate is by definition also a function of the month length (28th/29th substitute in a short month), so its dependence key carries the month length", "leap months: dependence only, the definitions do not say"},
		Shards:        func(tier string, seed int64) []Shard { return yearShards(tier, seed, 9998, "") },
		Run:           runC17,
		MinNontrivial: 100,
	})
}

func inList(ss []string, k string) bool {
	for _, s := range ss {
		if s == k {
			return true
		}
	}
	return false
}

func runC17(w *W) {
	perturbCache = true
	walkLunar = true
	sweepDays(w, "C17", func(d *Day, prev *Day) {
		t0 := tbTimes[d.J%len(tbTimes)]
		if d.J%8 == 3 {
			t0 = hms{0, 0, 0} // the moment at which lunarP hands out the sweep's walking object
		}
		l := lunarP(d.At(t0.h, t0.m, t0.s), d.J)
		ly, lm, ld := l.GetYear(), l.GetMonth(), l.GetDay()
		where := fmt.Sprintf("%s (%s)", d.Ymd, lunarYmd(l))
		tao, foto := l.GetTao(), l.GetFoto()
		w.R.Evals++
		nontriv := lm < 0 || ly != d.Y
		if tao.GetYear() != ly+2697 || tao.GetMonth() != lm || tao.GetDay() != ld {
			w.Viol("C17:Tao.fields:"+d.Ymd, fmt.Sprintf("%s: Tao date %d/%d/%d, reference %d/%d/%d", where, tao.GetYear(), tao.GetMonth(), tao.GetDay(), ly+2697, lm, ld), d.Ymd)
		}
		if foto.GetYear() != ly+544 || foto.GetMonth() != lm || foto.GetDay() != ld {
			fp := "C17:Foto.fields:" + d.Ymd
			if ly > d.Y {
				fp = "C17:Foto.GetYear:lunar-year-ahead-of-civil-year:" + d.Ymd
			}
			w.ViolT(fp, fmt.Sprintf("%s: Foto date %d/%d/%d, reference %d/%d/%d", where, foto.GetYear(), foto.GetMonth(), foto.GetDay(), ly+544, lm, ld), d.Ymd,
				fmt.Sprintf("func TestReplay(t *testing.T) { f := calendar.NewSolarFromYmd(%d,%d,%d).GetLunar().GetFoto(); if f.GetYear() != f.GetLunar().GetYear()+544 { t.Fatal(f.GetYear()) } }", d.Y, d.M, d.D))
		}
		// constructors: same moment, and back
		var t2 *calendar.Tao
		var f2 *calendar.Foto
		if msg, p := try(func() { t2 = calendar.NewTao(ly+2697, lm, ld, t0.h, t0.m, t0.s) }); p {
			w.Viol("C17:NewTao:panic:"+d.Ymd, where+": "+msg, d.Ymd)
		} else {
			w.R.Transitions++
			w.R.Traces++
			if !solarEq(t2.GetLunar().GetSolar(), d.Y, d.M, d.D, t0.h, t0.m, t0.s) || t2.GetYear() != ly+2697 || t2.GetMonth() != lm || t2.GetDay() != ld {
				w.Viol("C17:NewTao:"+d.Ymd, fmt.Sprintf("%s: NewTao(%d,%d,%d,...) is the moment %s and reads back %d/%d/%d", where, ly+2697, lm, ld, t2.GetLunar().GetSolar().ToYmdHms(), t2.GetYear(), t2.GetMonth(), t2.GetDay()), d.Ymd)
			}
		}
		if msg, p := try(func() { f2 = calendar.NewFoto(ly+544, lm, ld, t0.h, t0.m, t0.s) }); p {
			w.Viol("C17:NewFoto:panic:"+d.Ymd, where+": "+msg, d.Ymd)
		} else {
			w.R.Transitions++
			w.R.Traces++
			if !solarEq(f2.GetLunar().GetSolar(), d.Y, d.M, d.D, t0.h, t0.m, t0.s) || f2.GetYear() != ly+544 || f2.GetMonth() != lm || f2.GetDay() != ld {
				fp := "C17:NewFoto:" + d.Ymd
				if ly > d.Y {
					fp = "C17:Foto.GetYear:lunar-year-ahead-of-civil-year:" + d.Ymd
				}
				w.Viol(fp, fmt.Sprintf("%s: NewFoto(%d,%d,%d,...) is the moment %s and reads back %d/%d/%d", where, ly+544, lm, ld, f2.GetLunar().GetSolar().ToYmdHms(), f2.GetYear(), f2.GetMonth(), f2.GetDay()), d.Ymd)
			}
		}
		if t3 := calendar.NewTaoFromYmd(ly+2697, lm, ld); !solarEq(t3.GetLunar().GetSolar(), d.Y, d.M, d.D, 0, 0, 0) {
			w.Viol("C17:NewTaoFromYmd:"+d.Ymd, where, d.Ymd)
		}
		if f3 := calendar.NewFotoFromYmd(ly+544, lm, ld); !solarEq(f3.GetLunar().GetSolar(), d.Y, d.M, d.D, 0, 0, 0) {
			w.Viol("C17:NewFotoFromYmd:"+d.Ymd, where, d.Ymd)
		}
		// predicates
		term := l.GetJieQi()
		pillar := l.GetDayInGanZhi()
		key := fmt.Sprintf("%d|%d|%s|%s", lm, ld, pillar, term)
		md := fmt.Sprintf("%d-%d", lm, ld)
		type pred struct {
			name string
			f    func() bool
			ref  func() (bool, bool) // (value, applicable)
		}
		am := lm
		if am < 0 {
			am = -am
		}
		mlen := 0
		if mo := calendar.NewLunarMonthFromYm(ly, lm); mo != nil {
			mlen = mo.GetDayCount()
		}
		nonLeap := lm > 0
		preds := []pred{
			{"Tao.IsDaySanHui", tao.IsDaySanHui, func() (bool, bool) { return inList(TaoUtil.SAN_HUI, md), nonLeap }},
			{"Tao.IsDaySanYuan", tao.IsDaySanYuan, func() (bool, bool) { return inList(TaoUtil.SAN_YUAN, md), nonLeap }},
			{"Tao.IsDayWuLa", tao.IsDayWuLa, func() (bool, bool) { return inList(TaoUtil.WU_LA, md), nonLeap }},
			{"Tao.IsDayBaJie", tao.IsDayBaJie, func() (bool, bool) { _, ok := TaoUtil.BA_JIE[term]; return ok, true }},
			{"Tao.IsDayBaHui", tao.IsDayBaHui, func() (bool, bool) { _, ok := TaoUtil.BA_HUI[pillar]; return ok, true }},
			{"Tao.IsDayMingWu", tao.IsDayMingWu, func() (bool, bool) { return strings.HasPrefix(pillar, "戊"), true }},
			{"Tao.IsDayAnWu", tao.IsDayAnWu, func() (bool, bool) { return strings.HasSuffix(pillar, TaoUtil.AN_WU[am-1]), nonLeap }},
			{"Tao.IsDayWu", tao.IsDayWu, func() (bool, bool) {
				return strings.HasPrefix(pillar, "戊") || strings.HasSuffix(pillar, TaoUtil.AN_WU[am-1]), nonLeap
			}},
			{"Foto.IsMonthZhai", foto.IsMonthZhai, func() (bool, bool) { return lm == 1 || lm == 5 || lm == 9, nonLeap }},
			{"Foto.IsDayZhaiShuoWang", foto.IsDayZhaiShuoWang, func() (bool, bool) { return ld == 1 || ld == 15, true }},
			{"Foto.IsDayZhaiTen", foto.IsDayZhaiTen, func() (bool, bool) {
				return ld == 1 || ld == 8 || ld == 14 || ld == 15 || ld == 18 || ld == 23 || ld == 24 || ld == 28 || ld == 29 || ld == 30, true
			}},
			{"Foto.IsDayZhaiGuanYin", foto.IsDayZhaiGuanYin, func() (bool, bool) { return inList(FotoUtil.DAY_ZHAI_GUAN_YIN, md), nonLeap }},
			{"Foto.IsDayYangGong", foto.IsDayYangGong, func() (bool, bool) {
				for _, o := range FotoUtil.FESTIVAL[fmt.Sprintf("%d-%d", am, ld)] {
					if len(o) > 0 && o[0] == "杨公忌" {
						return true, nonLeap
					}
				}
				return false, nonLeap
			}},
		}
		var vec []string
		for _, p := range preds {
			var got bool
			if msg, pn := try(func() { got = p.f() }); pn {
				w.ViolT("C17:"+p.name+":panic", fmt.Sprintf("%s panics (%s), e.g. on %s", p.name, msg, where), d.Ymd,
					fmt.Sprintf("func TestReplay(t *testing.T) { calendar.NewSolarFromYmd(%d,%d,%d).GetLunar().GetFoto().IsDayYangGong() }", d.Y, d.M, d.D))
				vec = append(vec, "P")
				continue
			}
			w.R.Evals++
			if got {
				nontriv = true
			}
			vec = append(vec, fmt.Sprint(got))
			if want, app := p.ref(); app && want != got {
				w.Viol("C17:"+p.name+":"+md, fmt.Sprintf("%s on %s = %v, table membership says %v", p.name, where, got, want), d.Ymd)
			}
			// leap months: the definitions list (month, day) pairs and do not mention leap months, so either reading is
			// accepted (the leap month counts as the month it repeats, or not at all) - but a day of a leap month can be in
			// the class only if the same day of the month it repeats is listed
			if !nonLeap && got {
				amd := fmt.Sprintf("%d-%d", am, ld)
				var tbl []string
				switch p.name {
				case "Tao.IsDaySanHui":
					tbl = TaoUtil.SAN_HUI
				case "Tao.IsDaySanYuan":
					tbl = TaoUtil.SAN_YUAN
				case "Tao.IsDayWuLa":
					tbl = TaoUtil.WU_LA
				case "Foto.IsDayZhaiGuanYin":
					tbl = FotoUtil.DAY_ZHAI_GUAN_YIN
				}
				if tbl != nil && !inList(tbl, amd) {
					w.Viol("C17:"+p.name+":leap:"+md, fmt.Sprintf("%s on %s (leap month) = true, but day %s is not listed for the month it repeats", p.name, where, amd), d.Ymd)
				}
			}
		}
		// six fasting days: also a function of the month length
		six := foto.IsDayZhaiSix()
		wantSix := ld == 8 || ld == 14 || ld == 15 || ld == 23 || ld == 29 || ld == 30 || (ld == 28 && mlen != 30)
		if six != wantSix {
			w.Viol("C17:Foto.IsDayZhaiSix:"+md, fmt.Sprintf("IsDayZhaiSix on %s (month of %d days) = %v, definition says %v", where, mlen, six, wantSix), d.Ymd)
		}
		w.FDCheck("C17:Foto.IsDayZhaiSix", fmt.Sprintf("%s|len%d", key, mlen), fmt.Sprint(six), d.Ymd)
		// mansion, festivals
		xiu := foto.GetXiu()
		if xiu != FotoUtil.GetXiu(lm, ld) || !inList(FotoUtil.XIU_27, xiu) {
			w.Viol("C17:Foto.GetXiu:"+md, fmt.Sprintf("Foto.GetXiu on %s = %q", where, xiu), d.Ymd)
		}
		vec = append(vec, xiu, render1(tao.GetFestivals()), render1(foto.GetFestivals()), render1(foto.GetOtherFestivals()))
		w.FDCheck("C17:predicates", key, strings.Join(vec, ","), d.Ymd)
		// the answers do not depend on what the object was asked before: second objects of the same date, asked for
		// festivals and printed forms first and for the predicates in reverse order, answer the same
		{
			tao2, foto2 := l.GetTao(), l.GetFoto()
			var vec2 []string
			if msg, pn := try(func() {
				f2a, f2b, t2 := render1(foto2.GetFestivals()), render1(foto2.GetOtherFestivals()), render1(tao2.GetFestivals())
				_, _, _, _ = foto2.ToFullString(), foto2.String(), tao2.ToFullString(), tao2.String()
				x2 := foto2.GetXiu()
				second := []func() bool{tao2.IsDaySanHui, tao2.IsDaySanYuan, tao2.IsDayWuLa, tao2.IsDayBaJie, tao2.IsDayBaHui, tao2.IsDayMingWu, tao2.IsDayAnWu, tao2.IsDayWu,
					foto2.IsMonthZhai, foto2.IsDayZhaiShuoWang, foto2.IsDayZhaiTen, foto2.IsDayZhaiGuanYin, foto2.IsDayYangGong}
				res := make([]string, len(second))
				for i := len(second) - 1; i >= 0; i-- {
					res[i] = fmt.Sprint(second[i]())
				}
				vec2 = append(res, x2, t2, f2a, f2b)
			}); pn {
				w.Viol("C17:order:panic:"+md, fmt.Sprintf("predicates panic on %s when the object was asked for festivals first: %s", where, msg), d.Ymd)
			} else if len(vec2) == len(vec) && strings.Join(vec2, ",") != strings.Join(vec, ",") {
				w.Viol("C17:order:"+md, fmt.Sprintf("on %s the predicates/festivals answer %s on a fresh object but %s on one that was asked for festivals and printed forms first", where, strings.Join(vec, ","), strings.Join(vec2, ",")), d.Ymd)
			}
			w.R.Evals++
		}
		if nontriv {
			w.R.Nontrivial++
		}
		if ld == 15 && lm == 7 && d.Y%100 == 24 {
			w.Sample(map[string]interface{}{"day": d.Ymd, "lunar": lunarYmd(l), "tao_year": tao.GetYear(), "foto_year": foto.GetYear(), "key": key, "predicates": strings.Join(vec, ",")})
		}
	})
}
