package main

// C13 — seasonal counters and movable festivals. Engine E1; reference R4 = rule sentences of the
// property evaluated on the library's own term days and R2 day stems.

import (
	"fmt"

	"github.com/6tail/lunar-go/LunarUtil"
	"github.com/6tail/lunar-go/calendar"
)

func init() {
	register(&Check{
		ID:            "C13",
		Rule:          "every civil day in the year set (thorough: all days 1..9998) at noon (plus 00:00:00 and 23:59:59 on days carrying a term): nine-nines, dog days, pentad/phenology, New Year's Eve, Cold Food, spring/autumn She compared with the rule sentences evaluated on the library's own term days and integer day stems; presence AND absence are checked on every day. non-trivial = days on which at least one of the counters/festivals is present by the reference",
		Assume:        []string{"term days are the library's own (C03 decides their correctness)", "geng = stem 6, wu = stem 4 of (JDN+49) mod 60"},
		Shards:        func(tier string, seed int64) []Shard { return yearShards(tier, seed, 9998, "") },
		Run:           runC13,
		MinNontrivial: 100,
	})
}

var jieQiNames = []string{"冬至", "小寒", "大寒", "立春", "雨水", "惊蛰", "春分", "清明", "谷雨", "立夏", "小满", "芒种", "夏至", "小暑", "大暑", "立秋", "处暑", "白露", "秋分", "寒露", "霜降", "立冬", "小雪", "大雪"}

func termName(key string) string {
	switch key {
	case "DA_XUE":
		return "大雪"
	case "DONG_ZHI":
		return "冬至"
	case "XIAO_HAN":
		return "小寒"
	case "DA_HAN":
		return "大寒"
	case "LI_CHUN":
		return "立春"
	case "YU_SHUI":
		return "雨水"
	case "JING_ZHE":
		return "惊蛰"
	}
	return key
}

func termIndexByName(n string) int {
	for i, v := range jieQiNames {
		if v == n {
			return i
		}
	}
	return -1
}

func firstStemOnOrAfter(j int, stem int) int {
	for k := 0; k < 10; k++ {
		if r2DayIndex(j+k)%10 == stem {
			return j + k
		}
	}
	panic("unreachable")
}

func contains(ss []string, x string) bool {
	for _, s := range ss {
		if s == x {
			return true
		}
	}
	return false
}

func runC13(w *W) {
	// the 72 phenological names are 72 different names (a table with a repeated entry maps two pentads onto one name)
	{
		seen := map[string]int{}
		for i, n := range LunarUtil.WU_HOU {
			if k, dup := seen[n]; dup || n == "" {
				w.Viol(fmt.Sprintf("C13:WU_HOU:duplicate:%d", i), fmt.Sprintf("phenological name table: entry %d %q repeats entry %d (or is empty)", i, n, k), i)
			}
			seen[n] = i
		}
		if len(LunarUtil.WU_HOU) != 72 {
			w.Viol("C13:WU_HOU:len", fmt.Sprintf("phenological name table has %d entries, not 72", len(LunarUtil.WU_HOU)), nil)
		}
	}
	perturbCache = true
	walkLunar = true
	var pFu *calendar.Fu
	var pShu *calendar.ShuJiu
	sweepDays(w, "C13", func(d *Day, prev *Day) {
		base := d.L()
		terms := termsOf(base)
		byKey := map[string]Term{}
		onTerm := false
		for _, t := range terms {
			byKey[t.Key] = t
			if t.J == d.J {
				onTerm = true
			}
		}
		times := []hms{{12, 0, 0}}
		if onTerm {
			times = append(times, hms{0, 0, 0}, hms{23, 59, 59})
		} else if d.J%4 == 3 {
			times = append(times, hms{0, 0, 0}) // the moment at which lunarP hands out the sweep's walking object
		}
		for ti, t := range times {
			l := lunarP(d.At(t.h, t.m, t.s), d.J)
			w.R.Evals++
			nontriv := false
			// ---- nine-nines
			wantShu := ""
			wantIdx := 0
			for _, k := range []string{"DONG_ZHI", "冬至"} {
				if n := d.J - byKey[k].J; n >= 0 && n <= 80 {
					wantShu = LunarUtil.NUMBER[n/9+1] + "九"
					wantIdx = n%9 + 1
					break
				}
			}
			sj := l.GetShuJiu()
			if (sj == nil) != (wantShu == "") || (sj != nil && (sj.GetName() != wantShu || sj.GetIndex() != wantIdx)) {
				got := "nil"
				if sj != nil {
					got = fmt.Sprintf("%s day %d", sj.GetName(), sj.GetIndex())
				}
				w.Viol("C13:ShuJiu:"+d.Ymd, fmt.Sprintf("%s: nine-nines %s, reference %q day %d (winter solstice days %s / %s)", d.Ymd, got, wantShu, wantIdx, byKey["冬至"].S.ToYmd(), byKey["DONG_ZHI"].S.ToYmd()), d.Ymd)
			}
			if wantShu != "" {
				nontriv = true
			}
			// ---- dog days
			xz, lq := byKey["夏至"], byKey["立秋"]
			g3 := firstStemOnOrAfter(xz.J, 6) + 20
			last := firstStemOnOrAfter(lq.J, 6)
			wantFu, wantFuIdx := "", 0
			switch {
			case d.J >= g3 && d.J < g3+10:
				wantFu, wantFuIdx = "初伏", d.J-g3+1
			case d.J >= g3+10 && d.J < last:
				wantFu, wantFuIdx = "中伏", d.J-(g3+10)+1
			case d.J >= last && d.J < last+10:
				wantFu, wantFuIdx = "末伏", d.J-last+1
			}
			if ml := last - (g3 + 10); ml != 10 && ml != 20 {
				w.Viol(fmt.Sprintf("C13:Fu:middle-length:%04d", d.Y), fmt.Sprintf("reference middle dog-day period would be %d days in %d (summer solstice %s, Liqiu %s) — rule not applicable as worded", ml, d.Y, xz.S.ToYmd(), lq.S.ToYmd()), d.Y)
			}
			fu := l.GetFu()
			if (fu == nil) != (wantFu == "") || (fu != nil && (fu.GetName() != wantFu || fu.GetIndex() != wantFuIdx)) {
				got := "nil"
				if fu != nil {
					got = fmt.Sprintf("%s day %d", fu.GetName(), fu.GetIndex())
				}
				w.Viol("C13:Fu:"+d.Ymd, fmt.Sprintf("%s: dog days %s, reference %q day %d (summer solstice %s, Liqiu %s)", d.Ymd, got, wantFu, wantFuIdx, xz.S.ToYmd(), lq.S.ToYmd()), d.Ymd)
			}
			if wantFu != "" {
				nontriv = true
			}
			if ti == 0 {
				// index increases by one per day along the edge inside a period
				if prev != nil && pFu != nil && fu != nil && pFu.GetName() == fu.GetName() && fu.GetIndex() != pFu.GetIndex()+1 {
					w.Viol("C13:Fu:edge:"+d.Ymd, "dog-day index does not increase by one along the day edge", d.Ymd)
				}
				if prev != nil && pShu != nil && sj != nil && pShu.GetName() == sj.GetName() && sj.GetIndex() != pShu.GetIndex()+1 {
					w.Viol("C13:ShuJiu:edge:"+d.Ymd, "nine-nines index does not increase by one along the day edge", d.Ymd)
				}
				pFu, pShu = fu, sj
				if prev != nil {
					w.R.Traces++
				}
			}
			// ---- pentad and phenology: governing term = latest table entry whose day <= today
			var gov *Term
			for i := range terms {
				if terms[i].J <= d.J && (gov == nil || terms[i].J > gov.J) {
					gov = &terms[i]
				}
			}
			if gov == nil {
				w.Viol("C13:Hou:no-governing-term:"+d.Ymd, "no term on or before this day in the table", d.Ymd)
			} else {
				pent := (d.J - gov.J) / 5
				if pent > 2 {
					pent = 2
				}
				name := termName(gov.Key)
				wantHou := name + " " + LunarUtil.HOU[pent]
				wantWu := LunarUtil.WU_HOU[(termIndexByName(name)*3+pent)%72]
				if l.GetHou() != wantHou {
					w.Viol("C13:Hou:"+d.Ymd, fmt.Sprintf("%s: pentad %q, reference %q", d.Ymd, l.GetHou(), wantHou), d.Ymd)
				}
				if l.GetWuHou() != wantWu {
					w.Viol("C13:WuHou:"+d.Ymd, fmt.Sprintf("%s: phenology %q, reference %q", d.Ymd, l.GetWuHou(), wantWu), d.Ymd)
				}
				if d.J-gov.J >= 15 {
					nontriv = true
				}
			}
			// ---- New Year's Eve: present exactly when tomorrow's lunar year differs
			fest := listStrings(l.GetFestivals())
			if d.J+1 <= r1JDN(9998, 12, 31) {
				tom := d.S.NextDay(1).GetLunar()
				wantEve := tom.GetYear() != l.GetYear()
				if contains(fest, "除夕") != wantEve {
					fp := "C13:ChuXi:" + d.Ymd
					w.Viol(fp, fmt.Sprintf("%s (%s): New Year's Eve reported=%v, but tomorrow is %s", d.Ymd, lunarYmd(l), contains(fest, "除夕"), lunarYmd(tom)), d.Ymd)
				}
				if wantEve {
					nontriv = true
				}
			}
			// fixed lunar festivals by (month, day)
			if f, ok := LunarUtil.FESTIVAL[fmt.Sprintf("%d-%d", l.GetMonth(), l.GetDay())]; ok != contains(fest, f) && ok {
				w.Viol("C13:Festival:"+d.Ymd, "fixed lunar festival "+f+" missing", d.Ymd)
			}
			// ---- Cold Food, She days
			other := listStrings(l.GetOtherFestivals())
			qm := byKey["清明"]
			if contains(other, "寒食节") != (d.J+1 == qm.J) {
				w.Viol("C13:HanShi:"+d.Ymd, fmt.Sprintf("%s: Cold Food reported=%v, Qingming day is %s", d.Ymd, contains(other, "寒食节"), qm.S.ToYmd()), d.Ymd)
			}
			spring := firstStemOnOrAfter(byKey["立春"].J, 4) + 40
			autumn := firstStemOnOrAfter(lq.J, 4) + 40
			if contains(other, "春社") != (d.J == spring) {
				w.Viol("C13:ChunShe:"+d.Ymd, fmt.Sprintf("%s: spring She reported=%v, fifth wu day from Lichun %s is %s", d.Ymd, contains(other, "春社"), byKey["立春"].S.ToYmd(), r1Ymd(spring)), d.Ymd)
			}
			if contains(other, "秋社") != (d.J == autumn) {
				w.Viol("C13:QiuShe:"+d.Ymd, fmt.Sprintf("%s: autumn She reported=%v, fifth wu day from Liqiu %s is %s", d.Ymd, contains(other, "秋社"), lq.S.ToYmd(), r1Ymd(autumn)), d.Ymd)
			}
			if d.J+1 == qm.J || d.J == spring || d.J == autumn {
				nontriv = true
			}
			if nontriv && ti == 0 {
				w.R.Nontrivial++
			}
			if d.J == g3 && d.Y%50 == 24 {
				w.Sample(map[string]interface{}{"day": d.Ymd, "fu": wantFu, "summer_solstice": xz.S.ToYmd(), "liqiu": lq.S.ToYmd(), "middle_days": last - (g3 + 10), "spring_she": r1Ymd(spring)})
			}
		}
	})
}
