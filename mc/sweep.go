package main

import (
	"reflect"
	"container/list"
	"fmt"
	"strings"
	"time"

	"github.com/6tail/lunar-go/calendar"
)

// Day is one state of the civil-day transition system.
type Day struct {
	J, Y, M, D int
	Ymd        string
	S          *calendar.Solar
	l          *calendar.Lunar
}

// tzOf rotates the location of the time.Time values handed to the ...FromDate constructors: the library takes the
// wall-clock fields of the value as given, in whatever location it carries (UTC, UTC+8, UTC-11, UTC+5:45).
var tzList = []*time.Location{time.UTC, time.FixedZone("CST", 8*3600), time.FixedZone("W11", -11*3600), time.FixedZone("NPT", 5*3600+45*60)}

func tzOf(k int) *time.Location { return tzList[((k%4)+4)%4] }

// RouteSolar is a civil date object for a sweep day obtained through one of the public routes.
type RouteSolar struct {
	Name string
	S    *calendar.Solar
}

// SolarRoutes returns objects for this day's 00:00:00 / noon obtained through every public route other than
// NewSolarFromYmd: from the Julian Day of an instant in the last half second of the previous day (the seconds
// round up and carry), from the noon Julian Day, by stepping from the previous day, through the lunar date and
// from a time.Time. A route that panics or yields other year/month/day fields is dropped here (C04/C07/C01 judge
// those); the callers compare what the objects *answer*.
func (d *Day) SolarRoutes(prev *Day, viaLunar bool) []RouteSolar {
	var out []RouteSolar
	add := func(name string, f func() *calendar.Solar) {
		var s *calendar.Solar
		if _, p := try(func() { s = f() }); p || s == nil {
			return
		}
		if s.GetYear() != d.Y || s.GetMonth() != d.M || s.GetDay() != d.D {
			return
		}
		out = append(out, RouteSolar{name, s})
	}
	add("NewSolarFromJulianDay(last 0.3 s of the previous day)", func() *calendar.Solar {
		return calendar.NewSolarFromJulianDay(float64(d.J) - 0.5 - 0.3/86400)
	})
	add("NewSolarFromJulianDay(noon)", func() *calendar.Solar { return calendar.NewSolarFromJulianDay(float64(d.J)) })
	if prev != nil && prev.J == d.J-1 {
		add("previous day.NextDay(1)", func() *calendar.Solar { return prev.S.NextDay(1) })
		add("previous day 23:59:59 .NextHour(1)", func() *calendar.Solar {
			return calendar.NewSolar(prev.Y, prev.M, prev.D, 23, 59, 59).NextHour(1)
		})
		// query first, navigate afterwards: whatever the source object remembers from being asked must not travel
		add("previous day 23:59:59, asked for weekday/festivals/lunar date, then .NextHour(1)", func() *calendar.Solar {
			src := calendar.NewSolar(prev.Y, prev.M, prev.D, 23, 59, 59)
			src.GetWeek()
			src.GetFestivals()
			src.GetXingZuo()
			if viaLunar {
				src.GetLunar()
				src.ToFullString()
				src.GetSalaryRate()
			}
			return src.NextHour(1)
		})
		add("previous day noon, asked, then .NextHour(24).NextDay(0)", func() *calendar.Solar {
			src := calendar.NewSolar(prev.Y, prev.M, prev.D, 12, 0, 0)
			src.GetWeek()
			src.GetWeekInChinese()
			return src.NextHour(24).NextDay(0)
		})
		add("previous day, asked, then .Next(1,false)", func() *calendar.Solar {
			src := calendar.NewSolarFromYmd(prev.Y, prev.M, prev.D)
			src.GetWeek()
			return src.Next(1, false)
		})
	}
	if d.J+1 <= r1JDN(9998, 12, 31) {
		add("next day, asked, then .NextDay(-1)", func() *calendar.Solar {
			ny, nm, nd := r1FromJDN(d.J + 1)
			src := calendar.NewSolarFromYmd(ny, nm, nd)
			src.GetWeek()
			src.GetFestivals()
			return src.NextDay(-1)
		})
		add("next day 00:30, asked, then .NextHour(-1)", func() *calendar.Solar {
			ny, nm, nd := r1FromJDN(d.J + 1)
			src := calendar.NewSolar(ny, nm, nd, 0, 30, 0)
			src.GetWeek()
			src.GetFestivals()
			return src.NextHour(-1)
		})
	}
	if viaLunar {
		add("GetLunar().GetSolar()", func() *calendar.Solar { return d.L().GetSolar() })
		// civil date objects that are items of a unit's list
		add("item of SolarWeek.GetDays()", func() *calendar.Solar {
			st := d.J % 7
			if weekStartOf(d.J, st) < jdnFirst {
				return nil
			}
			for e := calendar.NewSolarWeekFromYmd(d.Y, d.M, d.D, st).GetDays().Front(); e != nil; e = e.Next() {
				if x := e.Value.(*calendar.Solar); x.GetDay() == d.D && x.GetMonth() == d.M {
					return x
				}
			}
			return nil
		})
		add("item of SolarMonth.GetDays()", func() *calendar.Solar {
			for e := calendar.NewSolarMonthFromYm(d.Y, d.M).GetDays().Front(); e != nil; e = e.Next() {
				if x := e.Value.(*calendar.Solar); x.GetDay() == d.D {
					return x
				}
			}
			return nil
		})
		add("solar of a JieQi object (term days only)", func() *calendar.Solar {
			if q := d.L().GetCurrentJieQi(); q != nil {
				return q.GetSolar()
			}
			return nil
		})
	}
	add("NewSolarFromDate", func() *calendar.Solar {
		t := time.Date(d.Y, time.Month(d.M), d.D, 12, 0, 0, 999999999, tzOf(d.J))
		if t.Year() != d.Y || int(t.Month()) != d.M || t.Day() != d.D {
			return nil
		}
		return calendar.NewSolarFromDate(t)
	})
	return out
}

func (d *Day) L() *calendar.Lunar {
	if d.l == nil {
		d.l = d.S.GetLunar()
	}
	return d.l
}

func (d *Day) At(h, m, s int) *calendar.Solar { return calendar.NewSolar(d.Y, d.M, d.D, h, m, s) }

// sweepDays visits every civil day of the shard's year ranges in order. prev is the previous
// state of the same contiguous range (nil at range starts). A panic inside fn is reported as a
// violation of the calling check and the sweep continues.
// perturbCache: when set (by checks whose states are lunar objects), the one-slot year cache is primed with a
// neighbouring year before two states out of five (deterministically by day number). A history-independent library
// gives the same answers; one that peeks at whatever table happens to be cached does not — ordered sweeps alone
// always find "the right" year in the cache.
var perturbCache = false

// walkLunar: when set, sweepDays maintains curWalk, a lunar object for the current day's 00:00:00 that was reached by
// a chain of Next(1) calls from the first day of the contiguous range (never reconstructed). lunarP hands it out as
// one of the routes; checks may also compare it with the directly built object.
var walkLunar = false
var curWalk *calendar.Lunar

func sweepDays(w *W, id string, fn func(d *Day, prev *Day)) {
	for _, r := range w.Shard.Ranges {
		j0, j1 := rangeJDN(r)
		var prev *Day
		for j := j0; j <= j1; j++ {
			y, m, dd := r1FromJDN(j)
			d := &Day{J: j, Y: y, M: m, D: dd, Ymd: fmt.Sprintf("%04d-%02d-%02d", y, m, dd)}
			if msg, p := try(func() { d.S = calendar.NewSolarFromYmd(y, m, dd) }); p {
				w.Viol(id+":NewSolarFromYmd:panic:"+d.Ymd, "valid civil date rejected: "+msg, d.Ymd)
				prev = nil
				continue
			}
			w.R.States++
			if walkLunar {
				// the walking lunar object: built once at the start of the range and advanced by Next(1) ever since
				if prev == nil || curWalk == nil {
					curWalk = nil
					try(func() { curWalk = d.S.GetLunar() })
				} else {
					wk := curWalk
					curWalk = nil
					try(func() { curWalk = wk.Next(1) })
				}
			}
			if perturbCache {
				switch j % 5 {
				case 1:
					try(func() { calendar.NewLunarYear(y + 1) })
				case 3:
					if y > 1 {
						try(func() { calendar.NewLunarYear(y - 1) })
					}
				}
			}
			if msg, p := try(func() { fn(d, prev) }); p {
				w.Viol(id+":panic:"+panicSite(msg), fmt.Sprintf("panic while evaluating state %s: %s", d.Ymd, msg), d.Ymd)
			}
			if prev != nil {
				w.R.Transitions++
			}
			prev = d
		}
	}
}

func panicSite(msg string) string {
	msg = strings.Map(func(r rune) rune {
		if r >= '0' && r <= '9' {
			return -1
		}
		if r == ' ' {
			return '_'
		}
		return r
	}, msg)
	if len(msg) > 60 {
		msg = msg[:60]
	}
	return msg
}

func listStrings(l *list.List) []string {
	var out []string
	if l == nil {
		return out
	}
	for e := l.Front(); e != nil; e = e.Next() {
		out = append(out, fmt.Sprint(e.Value))
	}
	return out
}

func lunarYmd(l *calendar.Lunar) string {
	return fmt.Sprintf("L%d/%d/%d", l.GetYear(), l.GetMonth(), l.GetDay())
}

// lunarP converts a civil moment to its lunar object and, on every second day, switches the day-boundary
// convention of the Lunar's (shared) eight-character object to 1 first: attributes of the lunar date, of its
// Taoist/Buddhist views and of its hour object must not depend on that option.
// It also rotates the route by which the object is obtained (conversion, direct construction from the lunar
// fields, time.Time with a sub-second part): C01 states the objects are observably identical, so the attribute
// rules must hold on each. A route that fails or lands elsewhere falls back to the conversion (C01/C07 judge it).
// ask-first is applied to the first two objects handed out per day (the checks ask for midnight / noon first)
var lunarPAskDay, lunarPAskCount = -1, 0

func lunarP(s *calendar.Solar, j int) *calendar.Lunar {
	l := s.GetLunar()
	switch j % 4 {
	case 3:
		// an object reached by navigation: the sweep's walking object (chain of Next(1) since the start of the range) at
		// 00:00:00, or one backward hop from the next day's object at the same time of day
		if curWalk != nil && (j/4)%2 == 0 && curWalk.GetSolar().ToYmdHms() == s.ToYmdHms() {
			l = curWalk
		} else {
			var l2 *calendar.Lunar
			if _, p := try(func() { l2 = s.NextDay(1).GetLunar().Next(-1) }); !p && l2 != nil && l2.GetSolar().ToYmdHms() == s.ToYmdHms() {
				l = l2
			}
		}
	case 1:
		var l2 *calendar.Lunar
		if _, p := try(func() {
			l2 = calendar.NewLunar(l.GetYear(), l.GetMonth(), l.GetDay(), l.GetHour(), l.GetMinute(), l.GetSecond())
		}); !p && l2 != nil && l2.GetSolar().ToYmdHms() == s.ToYmdHms() {
			l = l2
		}
	case 2:
		t := time.Date(s.GetYear(), time.Month(s.GetMonth()), s.GetDay(), s.GetHour(), s.GetMinute(), s.GetSecond(), 500000000, tzOf(j/4))
		if t.Year() == s.GetYear() && int(t.Month()) == s.GetMonth() && t.Day() == s.GetDay() {
			var l2 *calendar.Lunar
			if _, p := try(func() { l2 = calendar.NewLunarFromDate(t) }); !p && l2 != nil && l2.GetSolar().ToYmdHms() == s.ToYmdHms() {
				l = l2
			}
		}
	}
	if j != lunarPAskDay {
		lunarPAskDay, lunarPAskCount = j, 0
	}
	if (j/4)%3 == 1 && lunarPAskCount < 2 {
		lunarPAskCount++
		// ask first: every zero-argument accessor of the object is called once (in an order that rotates
		// with the day) before the check reads what it is interested in; a read-only accessor leaves the object as it was
		askAllLunar(l, j/12)
	}
	if j%2 == 0 {
		l.GetEightChar().SetSect(1)
	}
	return l
}

// askAllLunar calls every exported zero-argument accessor of a lunar date once (panics recovered: totality is C08's
// business) and discards the answers. rot picks the visiting order: the method list is walked cyclically from position
// 37*rot, forwards for even rot and backwards for odd rot, so that over the days of a sweep every accessor is preceded
// by every other one.
func askAllLunar(l *calendar.Lunar, rot int) {
	v := reflect.ValueOf(l)
	idx := zeroArgMethods(v.Type())
	n := len(idx)
	if rot < 0 {
		rot = -rot
	}
	for k := 0; k < n; k++ {
		pos := (37*rot + k) % n
		if rot%2 == 1 {
			pos = ((37*rot-k)%n + n) % n
		}
		i := idx[pos]
		func() {
			defer func() { recover() }()
			v.Method(i).Call(nil)
		}()
	}
}
