package main

import (
	"container/list"
	"fmt"
	"strings"

	"github.com/6tail/lunar-go/calendar"
)

// Day is one state of the civil-day transition system.
type Day struct {
	J, Y, M, D int
	Ymd        string
	S          *calendar.Solar
	l          *calendar.Lunar
}

func (d *Day) L() *calendar.Lunar {
	if d.l == nil {
		d.l = d.S.GetLunar()
	}
	return d.l
}

func (d *Day) At(h, m, s int) *calendar.Solar { return calendar.NewSolar(d.Y, d.M, d.D, h, m, s) }

// sweepDays visits every civil day of the shard's year ranges in order. prev is the previous
// state of the same contiguous range (nil at range starts). A panic inside fn is reported as a
// violation of the calling check and the sweep continues.
func sweepDays(w *W, id string, fn func(d *Day, prev *Day)) {
	for _, r := range w.Shard.Ranges {
		j0, j1 := rangeJDN(r)
		var prev *Day
		for j := j0; j <= j1; j++ {
			y, m, dd := r1FromJDN(j)
			d := &Day{J: j, Y: y, M: m, D: dd, Ymd: fmt.Sprintf("%04d-%02d-%02d", y, m, dd)}
			if msg, p := try(func() { d.S = calendar.NewSolarFromYmd(y, m, dd) }); p {
				w.Viol(id+":NewSolarFromYmd:panic:"+d.Ymd, "valid civil date rejected: "+msg, d.Ymd)
				prev = nil
				continue
			}
			w.R.States++
			if msg, p := try(func() { fn(d, prev) }); p {
				w.Viol(id+":panic:"+panicSite(msg), fmt.Sprintf("panic while evaluating state %s: %s", d.Ymd, msg), d.Ymd)
			}
			if prev != nil {
				w.R.Transitions++
			}
			prev = d
		}
	}
}

func panicSite(msg string) string {
	msg = strings.Map(func(r rune) rune {
		if r >= '0' && r <= '9' {
			return -1
		}
		if r == ' ' {
			return '_'
		}
		return r
	}, msg)
	if len(msg) > 60 {
		msg = msg[:60]
	}
	return msg
}

func listStrings(l *list.List) []string {
	var out []string
	if l == nil {
		return out
	}
	for e := l.Front(); e != nil; e = e.Next() {
		out = append(out, fmt.Sprint(e.Value))
	}
	return out
}

func lunarYmd(l *calendar.Lunar) string {
	return fmt.Sprintf("L%d/%d/%d", l.GetYear(), l.GetMonth(), l.GetDay())
}
