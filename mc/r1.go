package main

// R1: integer reference model of the civil calendar (Julian to 1582-10-04, Gregorian from 1582-10-15).

import "fmt"

const jdnSwitch = 2299161 // 1582-10-15 Gregorian
const jdnFirst = 1721424  // 0001-01-01 Julian

func jdnJulian(y, m, d int) int {
	a := (14 - m) / 12
	yy := y + 4800 - a
	mm := m + 12*a - 3
	return d + (153*mm+2)/5 + 365*yy + yy/4 - 32083
}
func jdnGregorian(y, m, d int) int {
	a := (14 - m) / 12
	yy := y + 4800 - a
	mm := m + 12*a - 3
	return d + (153*mm+2)/5 + 365*yy + yy/4 - yy/100 + yy/400 - 32045
}

// r1JDN: JDN of a civil date in the mixed calendar (caller guarantees validity).
func r1JDN(y, m, d int) int {
	if y > 1582 || (y == 1582 && (m > 10 || (m == 10 && d >= 15))) {
		return jdnGregorian(y, m, d)
	}
	return jdnJulian(y, m, d)
}

// r1FromJDN: inverse.
func r1FromJDN(j int) (y, m, d int) {
	var b, c int
	if j >= jdnSwitch {
		a := j + 32044
		b = (4*a + 3) / 146097
		c = a - 146097*b/4
	} else {
		b = 0
		c = j + 32082
	}
	dd := (4*c + 3) / 1461
	e := c - 1461*dd/4
	mm := (5*e + 2) / 153
	d = e - (153*mm+2)/5 + 1
	m = mm + 3 - 12*(mm/10)
	y = 100*b + dd - 4800 + mm/10
	return
}

func r1Leap(y int) bool {
	if y <= 1582 {
		return y%4 == 0
	}
	return (y%4 == 0 && y%100 != 0) || y%400 == 0
}

func r1DaysInMonth(y, m int) int {
	if y == 1582 && m == 10 {
		return 21
	}
	switch m {
	case 1, 3, 5, 7, 8, 10, 12:
		return 31
	case 4, 6, 9, 11:
		return 30
	}
	if r1Leap(y) {
		return 29
	}
	return 28
}

// r1LastDayNumber: the highest day NUMBER in a month (31 for Oct 1582).
func r1LastDay(y, m int) int {
	if y == 1582 && m == 10 {
		return 31
	}
	return r1DaysInMonth(y, m)
}

func r1Valid(y, m, d int) bool {
	if m < 1 || m > 12 || d < 1 {
		return false
	}
	if y == 1582 && m == 10 {
		return d <= 4 || (d >= 15 && d <= 31)
	}
	return d <= r1DaysInMonth(y, m)
}

func r1Weekday(j int) int { return (j + 1) % 7 } // 0 = Sunday

func r1Ymd(j int) string {
	y, m, d := r1FromJDN(j)
	return fmt.Sprintf("%04d-%02d-%02d", y, m, d)
}

// r1AddMonths: clamp-to-month-end rule with the 1582-10 renumbering (day 5..14 -> +10).
func r1AddMonths(y, m, d, n int) (int, int, int) {
	t := y*12 + (m - 1) + n
	ny, nm := t/12, t%12+1
	if t < 0 {
		ny = (t - 11) / 12
		nm = t - ny*12 + 1
	}
	nd := d
	if ny == 1582 && nm == 10 {
		if nd > 4 && nd < 15 {
			nd += 10
		}
	} else if mx := r1DaysInMonth(ny, nm); nd > mx {
		nd = mx
	}
	return ny, nm, nd
}

// sexagenary day index 0..59 (0 = jiazi)
func r2DayIndex(j int) int { return (j + 49) % 60 }

var ganS = []string{"甲", "乙", "丙", "丁", "戊", "己", "庚", "辛", "壬", "癸"}
var zhiS = []string{"子", "丑", "寅", "卯", "辰", "巳", "午", "未", "申", "酉", "戌", "亥"}

func gz(i int) string { i = ((i % 60) + 60) % 60; return ganS[i%10] + zhiS[i%12] }
func gzIndex(g, z int) int {
	for i := 0; i < 60; i++ {
		if i%10 == g && i%12 == z {
			return i
		}
	}
	return -1
}
func mod(a, n int) int { return ((a % n) + n) % n }

// try runs f and reports whether it panicked.
func try(f func()) (msg string, panicked bool) {
	defer func() {
		if r := recover(); r != nil {
			msg = fmt.Sprint(r)
			panicked = true
		}
	}()
	f()
	return
}

// year range iteration helper: first and last JDN of a year range clipped to 1..maxYear.
func rangeJDN(r [2]int) (int, int) {
	return r1JDN(r[0], 1, 1), r1JDN(r[1], 12, 31)
}
