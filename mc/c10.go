package main

// C10 — eight-character reverse lookup: complete, sound, sorted. Engine E1 over moments.

import (
	"container/list"
	"fmt"
	"time"

	"github.com/6tail/lunar-go/calendar"
)

func init() {
	register(&Check{
		ID:     "C10",
		Rule:   "moments: every moment from the Xiaohan instant of the base year (1900-01-06 02:03:57 for the default) to 31 December of the clock's year x the 13 slot entries (00:00, 01:00, 03:00, ..., 23:00) x day-boundary convention {1,2} (thorough: all days; quick: 1900, 1984, the last 2 years), plus for every Jie instant t in the whole span the moments {t-1s, t, start of t's slot, end of t's slot}; base years {1, 1600, 1984, 2000} on a stride of the 1984..now span; and for base years B in {900, 1200, 1500, 1582, 1583, 1700, 1900, 1984, 2000, now} the pillars of every moment from 20 December of B-1 to 10 January of B (soundness clauses only: what is returned has the pillars, is not before B, is in order); and all base years now-k, k = 0..119 (every residue modulo 60) with moments of the current year, the year before and the base year; and, with base year 1, the moments {t-1s, t, slot start, slot end} of every Jie instant of the years 2..1899 (quick: every thirtieth year). For each moment the four pillars are read from EightChar under the convention and fed to the reverse lookup; oracle: some returned moment lies on the same day in the same two-hour slot (23:00-00:59 is one slot under convention 1), every returned moment converts forward to exactly those pillars under that convention and is not before the base year, and the list is strictly increasing. non-trivial = moments whose slot contains a Jie instant, rat-slot moments, Lichun-day moments, and non-default base years",
		Assume: []string{"the wall clock's year is read once at start and once at the end of each worker; a roll-over discards the last year and marks the run inexhaustive", "forward conversion (EightChar) is taken as given here; its correctness is C05's subject"},
		Shards: func(tier string, seed int64) []Shard {
			now := time.Now().Local().Year()
			var out []Shard
			if tier == "thorough" {
				out = splitRanges([][2]int{{1900, now}}, 32, Shard{Kind: "days", Tier: tier, Seed: seed})
			} else {
				out = splitRanges([][2]int{{1900, 1900}, {1984, 1984}, {now - 1, now}}, 12, Shard{Kind: "days", Tier: tier, Seed: seed})
			}
			out = append(out, splitRanges([][2]int{{1900, now}}, 8, Shard{Kind: "jie", Tier: tier, Seed: seed})...)
			out = append(out, splitRanges([][2]int{{1984, now}}, 8, Shard{Kind: "base", Tier: tier, Seed: seed})...)
			for _, by := range []int{900, 1200, 1500, 1582, 1583, 1700, 1900, 1984, 2000, now} {
				out = append(out, Shard{Kind: "edge", Arg: fmt.Sprint(by), Tier: tier, Seed: seed})
			}
			out = append(out, Shard{Kind: "residues", Arg: fmt.Sprint(now), Tier: tier, Seed: seed})
			out = append(out, Shard{Kind: "anomaly", Tier: tier, Seed: seed})
			var early [][2]int
			for y := 2; y <= 1899; y++ {
				// quick: every 30th year, plus the years whose lunar New Year lies outside the civil year (lunar year 16
				// begins on 0015-12-30; the lookup once read year 16's terms from that day's table and missed the whole year)
				// and their successors
				if tier == "thorough" || y%30 == int(seed%30) || newYearOutsideCivilYear(y) || newYearOutsideCivilYear(y-1) {
					early = append(early, [2]int{y, y})
				}
			}
			out = append(out, splitRanges(toRangesPairs(early), 24, Shard{Kind: "jieearly", Tier: tier, Seed: seed})...)
			return out
		},
		Run:           runC10,
		MinNontrivial: 50,
	})
}

func newYearOutsideCivilYear(y int) bool {
	if y < 1 {
		return false
	}
	out := false
	try(func() { out = calendar.NewLunarFromYmd(y, 1, 1).GetSolar().GetYear() != y })
	return out
}

type c10Moment struct {
	d       *Day
	t       hms
	jieSlot bool
}

func slotOf(h int) int { return ((h + 1) / 2) % 12 }

// c10Check performs the lookup for one moment; baseYear 0 = default API.
// c10SoundOnly: the query moment may lie outside the property's domain (before the base year's first Jie); only the
// clauses about what is returned are judged (right pillars, not earlier than the base year, strictly increasing).
var c10SoundOnly = false

func c10Check(w *W, d *Day, t hms, sect int, baseYear int, terms []Term) {
	s := d.At(t.h, t.m, t.s)
	l := s.GetLunar()
	ec := l.GetEightChar()
	ec.SetSect(sect)
	py, pm, pd, pt := ec.GetYear(), ec.GetMonth(), ec.GetDay(), ec.GetTime()
	ec.SetSect(2)
	where := fmt.Sprintf("%s sect=%d base=%d pillars=%s %s %s %s", s.ToYmdHms(), sect, baseYear, py, pm, pd, pt)
	if !c10SoundOnly && solarInst(s) < xiaohanOf(map[bool]int{true: 1900, false: baseYear}[baseYear == 0]) {
		return // before the first Jie term of the base year: outside the property's domain
	}
	var res *list.List
	msg, p := try(func() {
		switch {
		case baseYear == 0 && sect == 2 && (d.J%2 == 0):
			res = calendar.ListSolarFromBaZi(py, pm, pd, pt)
		case baseYear == 0:
			res = calendar.ListSolarFromBaZiBySect(py, pm, pd, pt, sect)
		default:
			res = calendar.ListSolarFromBaZiBySectAndBaseYear(py, pm, pd, pt, sect, baseYear)
		}
	})
	w.R.Evals++
	w.R.Transitions++
	if p {
		w.Viol("C10:panic:"+panicSite(msg), "reverse lookup panicked for "+where+": "+msg, where)
		return
	}
	by := baseYear
	if by == 0 {
		by = 1900
	}
	now := solarInst(s)
	if !c10SoundOnly && now < xiaohanOf(by) {
		return // before the first Jie term of the base year: outside the property's domain
	}
	slot := slotOf(t.h)
	found := false
	var prev int64 = -1 << 62
	for e := res.Front(); e != nil; e = e.Next() {
		r, ok := e.Value.(*calendar.Solar)
		if !ok {
			w.Viol("C10:element-type", "list element is not *Solar for "+where, where)
			return
		}
		w.R.Traces++
		ri := solarInst(r)
		if ri <= prev {
			w.Viol("C10:order:"+d.Ymd, fmt.Sprintf("results not strictly increasing for %s: ... %s", where, r.ToYmdHms()), where)
		}
		prev = ri
		// soundness
		rl := r.GetLunar()
		rec := rl.GetEightChar()
		rec.SetSect(sect)
		if rec.GetYear() != py || rec.GetMonth() != pm || rec.GetDay() != pd || rec.GetTime() != pt {
			w.Viol("C10:unsound:"+d.Ymd, fmt.Sprintf("lookup for %s returned %s whose pillars are %s", where, r.ToYmdHms(), rec.String()), where)
		}
		if r.GetYear() < by {
			w.Viol("C10:before-base:"+d.Ymd, fmt.Sprintf("lookup for %s returned %s, earlier than base year %d", where, r.ToYmdHms(), by), where)
		}
		// completeness: same day & slot (rat slot across midnight under convention 1)
		if slotOf(r.GetHour()) == slot {
			rj := r1JDN(r.GetYear(), r.GetMonth(), r.GetDay())
			switch {
			case slot != 0 && rj == d.J:
				found = true
			case slot == 0 && sect == 2 && rj == d.J && (r.GetHour() == 23) == (t.h == 23):
				found = true
			case slot == 0 && sect == 1:
				// 23:xx of day D and 00:xx of day D+1 are one slot
				a, b := d.J, rj
				if t.h == 23 {
					a++
				}
				if r.GetHour() == 23 {
					b++
				}
				if a == b {
					found = true
				}
			}
		}
	}
	if c10SoundOnly {
		w.R.Nontrivial++
		return
	}
	// class predicate for a miss: the slot contains a Jie instant J with  moment < J <= the slot's representative moment
	nontriv := slot == 0
	missClass := false
	var slotStart, rep int64
	dayStart := int64(d.J) * 86400
	switch {
	case slot == 0 && t.h == 23:
		slotStart = dayStart + 23*3600
		rep = dayStart + 86400 // 00:00 of the next day (convention 1); convention 2 uses 23:00 itself
		if sect == 2 {
			rep = slotStart
		}
	case slot == 0:
		slotStart = dayStart - 3600
		rep = dayStart
		if sect == 2 {
			slotStart = dayStart
		}
	default:
		slotStart = dayStart + int64(2*slot-1)*3600
		rep = slotStart + 3600
	}
	slotEnd := slotStart + 7200
	if sect == 2 && slot == 0 {
		slotEnd = slotStart + 3600
	}
	for _, tm := range terms {
		if tm.Idx%2 != 0 {
			continue
		}
		ji := tm.inst()
		if ji >= slotStart && ji < slotEnd {
			nontriv = true
			if now < ji && ji <= rep {
				missClass = true
			}
		}
		if tm.J == d.J && (tm.Key == "立春" || tm.Key == "LI_CHUN") {
			nontriv = true
		}
	}
	if nontriv || baseYear != 0 {
		w.R.Nontrivial++
	}
	if !found {
		fp := "C10:miss:" + s.ToYmdHms() + fmt.Sprintf(":sect%d", sect)
		if missClass {
			fp = "C10:miss:moment-before-a-jie-instant-that-is-at-or-before-the-slot-representative-hour"
		}
		var got []string
		for e := res.Front(); e != nil; e = e.Next() {
			got = append(got, e.Value.(*calendar.Solar).ToYmdHms())
		}
		w.ViolT(fp, fmt.Sprintf("lookup for %s returned %v: no moment in the original's two-hour slot", where, got), where,
			fmt.Sprintf("func TestReplay(t *testing.T) { l := calendar.ListSolarFromBaZiBySectAndBaseYear(%q,%q,%q,%q,%d,%d); for e := l.Front(); e != nil; e = e.Next() { t.Log(e.Value.(*calendar.Solar).ToYmdHms()) } }", py, pm, pd, pt, sect, by))
	}
}

func runC10(w *W) {
	y0 := time.Now().Local().Year()
	defer func() {
		if time.Now().Local().Year() != y0 {
			w.R.Inexhaustive = "wall-clock year rolled over during the run"
		}
	}()
	first := r1JDN(1900, 1, 6)
	switch w.Shard.Kind {
	case "days":
		sweepDays(w, "C10", func(d *Day, prev *Day) {
			if d.J < first {
				return
			}
			terms := termsOf(d.L())
			for k := 0; k <= 12; k++ {
				h := 0
				if k > 0 {
					h = 2*k - 1
				}
				for sect := 1; sect <= 2; sect++ {
					c10Check(w, d, hms{h, 0, 0}, sect, 0, terms)
				}
			}
			if d.D == 1 && d.M == 1 {
				w.Sample(map[string]interface{}{"day": d.Ymd, "lookups": 26})
			}
		})
	case "jie", "jieearly":
		// "jieearly": the Jie instants of years 2..1899 with base year 1 (rounds before the queried one exist in every
		// era, so whatever an earlier round leaves behind must not affect a later one)
		jieBase := 0
		if w.Shard.Kind == "jieearly" {
			jieBase = 1
		}
		sweepDays(w, "C10", func(d *Day, prev *Day) {
			if jieBase == 0 && d.J < first {
				return
			}
			terms := termsOf(d.L())
			for _, tm := range terms {
				if tm.Idx%2 != 0 || tm.J != d.J {
					continue
				}
				h := tm.Sec / 3600
				var ts []hms
				if tm.Sec > 0 {
					ts = append(ts, hms{(tm.Sec - 1) / 3600, (tm.Sec - 1) / 60 % 60, (tm.Sec - 1) % 60})
				}
				ts = append(ts, hms{h, tm.Sec / 60 % 60, tm.Sec % 60})
				// slot start / end on this civil day
				switch {
				case h == 0:
					ts = append(ts, hms{0, 0, 0}, hms{0, 59, 59})
				case h == 23:
					ts = append(ts, hms{23, 0, 0}, hms{23, 59, 59})
				default:
					st := ((h+1)/2)*2 - 1
					ts = append(ts, hms{st, 0, 0}, hms{st + 1, 59, 59})
				}
				for _, t := range ts {
					for sect := 1; sect <= 2; sect++ {
						c10Check(w, d, t, sect, jieBase, terms)
					}
				}
				w.Sample(map[string]interface{}{"jie": tm.Key, "instant": tm.S.ToYmdHms(), "moments": len(ts)})
			}
		})
	case "anomaly":
		// the days around the civil calendar's irregular places, with the year itself (and year 1) as base year: the end of
		// February in century years (leap under the Julian rule up to 1500, common under the Gregorian rule from 1700) and
		// in the 400-year leap years, and the weeks around the 1582 switch
		for _, y := range []int{100, 200, 300, 400, 500, 600, 700, 800, 900, 1000, 1100, 1200, 1300, 1400, 1500, 1582, 1600, 1700, 1800, 1900, 2000} {
			from, to := r1JDN(y, 2, 20), r1JDN(y, 3, 12)
			if y == 1582 {
				from, to = r1JDN(1582, 9, 25), r1JDN(1582, 11, 12)
			}
			for j := from; j <= to; j++ {
				dy, dm, dd := r1FromJDN(j)
				d := &Day{J: j, Y: dy, M: dm, D: dd, Ymd: fmt.Sprintf("%04d-%02d-%02d", dy, dm, dd)}
				d.S = calendar.NewSolarFromYmd(dy, dm, dd)
				terms := termsOf(d.L())
				w.R.States++
				for _, t := range []hms{{12, 30, 0}, {23, 30, 0}, {0, 30, 0}} {
					for sect := 1; sect <= 2; sect++ {
						for _, by := range []int{y, 1} {
							if y < 1900 || by == y {
								c10Check(w, d, t, sect, by, terms)
							}
						}
					}
				}
			}
		}
	case "residues":
		// every residue of (current year - base year) modulo 60 and 120 years back: moments of the current year (before
		// and after Lichun), of the year before and of the base year itself, with base years now-k, k = 0..119
		now := atoi(w.Shard.Arg)
		for k := 0; k < 120; k++ {
			by := now - k
			for _, dt := range [][3]int{{now, 1, 10}, {now, 6, 15}, {now - 1, 6, 15}, {by, 6, 15}, {by, 12, 30}} {
				if dt[0] < by || (dt[0] == by && dt[1] == 1) {
					continue
				}
				d := &Day{J: r1JDN(dt[0], dt[1], dt[2]), Y: dt[0], M: dt[1], D: dt[2], Ymd: fmt.Sprintf("%04d-%02d-%02d", dt[0], dt[1], dt[2])}
				d.S = calendar.NewSolarFromYmd(dt[0], dt[1], dt[2])
				terms := termsOf(d.L())
				for sect := 1; sect <= 2; sect++ {
					c10Check(w, d, hms{12, 0, 0}, sect, by, terms)
				}
			}
		}
	case "edge":
		// the edge of a base year B in every calendar era: lookups for the pillars of the moments from 20 December of
		// B-1 to 10 January of B with base year B; whatever comes back must have those pillars, must not lie before
		// B and must be in order (the query moments before B's first Jie are outside the completeness clause)
		by := atoi(w.Shard.Arg)
		c10SoundOnly = true
		for j := r1JDN(by-1, 12, 20); j <= r1JDN(by, 1, 10); j++ {
			y, m, dd := r1FromJDN(j)
			d := &Day{J: j, Y: y, M: m, D: dd, Ymd: fmt.Sprintf("%04d-%02d-%02d", y, m, dd)}
			d.S = calendar.NewSolarFromYmd(y, m, dd)
			terms := termsOf(d.L())
			for _, t := range []hms{{0, 0, 0}, {12, 0, 0}, {23, 0, 0}, {23, 59, 59}} {
				for sect := 1; sect <= 2; sect++ {
					c10Check(w, d, t, sect, by, terms)
				}
			}
		}
		c10SoundOnly = false
	case "base":
		stride := 29
		if w.Thorough() {
			stride = 5
		}
		sweepDays(w, "C10", func(d *Day, prev *Day) {
			if d.J%stride != int(w.Shard.Seed%int64(stride)) {
				return
			}
			terms := termsOf(d.L())
			for _, by := range []int{1, 1600, 1984, 2000} {
				if d.J < r1JDN(by, 1, 7) && by > 1 {
					continue
				}
				if by == 1 && d.J%(stride*3) != int(w.Shard.Seed%int64(stride)) {
					continue // base year 1 walks 34 candidate years per lookup
				}
				k := (d.J / stride) % 13
				h := 0
				if k > 0 {
					h = 2*k - 1
				}
				for sect := 1; sect <= 2; sect++ {
					c10Check(w, d, hms{h, 0, 0}, sect, by, terms)
				}
			}
		})
	}
	w.R.States = w.R.Evals
}

var xiaohanCache = map[int]int64{}

// xiaohanOf: instant of the first Jie term (Xiaohan) of a civil year, from the library's own table.
func xiaohanOf(y int) int64 {
	if v, ok := xiaohanCache[y]; ok {
		return v
	}
	v := int64(-1 << 62)
	for _, t := range termsOf(calendar.NewSolarFromYmd(y, 6, 1).GetLunar()) {
		if t.Key == "小寒" {
			v = t.inst()
		}
	}
	xiaohanCache[y] = v
	return v
}
