package main

// C19 printed forms; C20 zodiac signs and weekday festivals. Engine E1.

import (
	"fmt"
	"regexp"
	"sort"
	"strings"

	"github.com/6tail/lunar-go/LunarUtil"
	"github.com/6tail/lunar-go/SolarUtil"
	"github.com/6tail/lunar-go/calendar"
)

var reYmd = regexp.MustCompile(`^\d{4}-\d{2}-\d{2}$`)
var reYmdHms = regexp.MustCompile(`^\d{4}-\d{2}-\d{2} \d{2}:\d{2}:\d{2}$`)

// R6: parse a Chinese lunar rendering "<digits>年[闰]<month>月<day>" back to numbers.
func r6Parse(s string) (y, m, d int, ok bool) {
	parts := strings.SplitN(s, "年", 2)
	if len(parts) != 2 {
		return
	}
	if parts[0] == "" {
		return // a digit-by-digit year has at least one digit (year 0 prints as the digit zero)
	}
	for _, r := range parts[0] {
		k := -1
		for i := 0; i <= 9; i++ {
			if LunarUtil.NUMBER[i] == string(r) {
				k = i
			}
		}
		if k < 0 {
			return
		}
		y = y*10 + k
	}
	rest := parts[1]
	leap := false
	if strings.HasPrefix(rest, "闰") {
		leap = true
		rest = strings.TrimPrefix(rest, "闰")
	}
	mp := strings.SplitN(rest, "月", 2)
	if len(mp) != 2 {
		return
	}
	for i := 1; i <= 12; i++ {
		if LunarUtil.MONTH[i] == mp[0] {
			if m != 0 {
				return
			}
			m = i
		}
	}
	if m == 0 {
		return
	}
	if leap {
		m = -m
	}
	for i := 1; i <= 30; i++ {
		if LunarUtil.DAY[i] == mp[1] {
			if d != 0 {
				return
			}
			d = i
		}
	}
	ok = d != 0
	return
}

func init() {
	register(&Check{
		ID:            "C19",
		Rule:          "every civil day in the year set (thorough: 0001-01-01..9999-12-31) x 26 slot-edge times: Solar strings matched against the canonical regex, parsed back, and compared with the previous state's string (strict lexicographic increase along the total order of moments); lunar/Tao/Foto/LunarMonth/LunarYear renderings parsed back with the inverse of the exported NUMBER/MONTH/DAY tables. non-trivial = states whose lunar month is a leap month, whose year has fewer than 4 digits, or that start a lunar month",
		Assume:        []string{"R6 parser is the inverse of LunarUtil.NUMBER/MONTH/DAY (uniqueness of table entries is asserted at start)"},
		Shards:        func(tier string, seed int64) []Shard { return yearShards(tier, seed, 9999, "") },
		Run:           runC19,
		MinNontrivial: 50,
	})
	register(&Check{
		ID:     "C20",
		Rule:   "every civil day 0001-01-01..9998-12-31 (both tiers): zodiac sign compared with the 366-entry month-day table built from the twelve conventional start days, run structure checked along the day order; festival lists compared with reference (k-th / last weekday occurrence from R1, fixed dates from the exported tables); once-per-year counted per year. non-trivial = days carrying at least one festival or lying on a sign boundary",
		Assume: []string{"conventional sign start days: 3-21,4-20,5-21,6-22,7-23,8-23,9-23,10-24,11-23,12-22,1-20,2-19", "R1 weekday and month lengths"},
		Shards: func(tier string, seed int64) []Shard {
			sh := splitRanges([][2]int{{1, 9998}}, 32, Shard{Tier: tier, Seed: seed})
			// plus the whole range in ONE process, so that years far apart meet the same process-wide state
			return append(sh, Shard{Kind: "single", Ranges: [][2]int{{1, 9998}}, Tier: tier, Seed: seed})
		},
		Run:           runC20,
		MinNontrivial: 50,
	})
}

func runC19(w *W) {
	perturbCache = true
	walkLunar = true
	// table uniqueness (parser is a function)
	for _, tb := range [][]string{LunarUtil.NUMBER[:10], LunarUtil.MONTH[1:], LunarUtil.DAY[1:]} {
		seen := map[string]bool{}
		for _, s := range tb {
			if seen[s] || s == "" {
				w.Viol("C19:table-not-injective", "duplicate or empty entry in a rendering table: "+s, s)
			}
			seen[s] = true
		}
	}
	prevStr := ""
	lastLM := ""
	sweepDays(w, "C19", func(d *Day, prev *Day) {
		if prev == nil {
			prevStr = ""
		}
		if s := d.S.ToYmd(); !reYmd.MatchString(s) || s != d.Ymd || d.S.String() != s {
			w.Viol("C19:ToYmd:"+d.Ymd, fmt.Sprintf("ToYmd=%q String=%q reference %q", s, d.S.String(), d.Ymd), d.Ymd)
		}
		for _, t := range tbTimes {
			st := d.At(t.h, t.m, t.s)
			s := st.ToYmdHms()
			w.R.Evals++
			var py, pm, pd, ph, pmi, ps int
			n, _ := fmt.Sscanf(s, "%04d-%02d-%02d %02d:%02d:%02d", &py, &pm, &pd, &ph, &pmi, &ps)
			if !reYmdHms.MatchString(s) || n != 6 || py != d.Y || pm != d.M || pd != d.D || ph != t.h || pmi != t.m || ps != t.s {
				w.Viol("C19:ToYmdHms:"+d.Ymd, fmt.Sprintf("ToYmdHms=%q does not parse back to %s %02d:%02d:%02d", s, d.Ymd, t.h, t.m, t.s), d.Ymd)
			}
			if prevStr != "" {
				w.R.Transitions++
				w.R.Traces++
				if !(strings.Compare(prevStr, s) < 0) {
					w.Viol("C19:order:"+d.Ymd, fmt.Sprintf("%q does not sort after %q", s, prevStr), d.Ymd)
				}
			}
			prevStr = s
		}
		// objects reached by stepping print canonically as well: the printed form of a stepped moment is the fixed-width
		// rendering of that moment's own fields (hour 00..23, an existing day), whatever route led there
		{
			type nav struct {
				name     string
				h, mi, s int
				hours    int
				f        func(x *calendar.Solar) *calendar.Solar
			}
			navs := []nav{
				{"00:00:00.NextHour(-24)", 0, 0, 0, -24, func(x *calendar.Solar) *calendar.Solar { return x.NextHour(-24) }},
				{"00:00:00.NextHour(24).NextHour(-24)", 0, 0, 0, 0, func(x *calendar.Solar) *calendar.Solar { return x.NextHour(24).NextHour(-24) }},
				{"00:00:00.NextHour(-48)", 0, 0, 0, -48, func(x *calendar.Solar) *calendar.Solar { return x.NextHour(-48) }},
				{"05:00:00.NextHour(-29)", 5, 0, 0, -29, func(x *calendar.Solar) *calendar.Solar { return x.NextHour(-29) }},
				{"05:00:00.NextHour(19)", 5, 0, 0, 19, func(x *calendar.Solar) *calendar.Solar { return x.NextHour(19) }},
				{"23:59:59.NextHour(1)", 23, 59, 59, 1, func(x *calendar.Solar) *calendar.Solar { return x.NextHour(1) }},
				{"23:00:00.NextHour(25)", 23, 0, 0, 25, func(x *calendar.Solar) *calendar.Solar { return x.NextHour(25) }},
				{"12:30:15.NextHour(-12)", 12, 30, 15, -12, func(x *calendar.Solar) *calendar.Solar { return x.NextHour(-12) }},
				{"12:30:15.NextHour(-13)", 12, 30, 15, -13, func(x *calendar.Solar) *calendar.Solar { return x.NextHour(-13) }},
				{"23:59:59.NextDay(1)", 23, 59, 59, 24, func(x *calendar.Solar) *calendar.Solar { return x.NextDay(1) }},
				{"00:00:00.NextDay(-1)", 0, 0, 0, -24, func(x *calendar.Solar) *calendar.Solar { return x.NextDay(-1) }},
				{"00:00:00.Next(-1,false)", 0, 0, 0, -24, func(x *calendar.Solar) *calendar.Solar { return x.Next(-1, false) }},
			}
			for k := 0; k < 4; k++ {
				nv := navs[(d.J+3*k)%len(navs)]
				tot := int64(d.J)*86400 + int64(nv.h*3600+nv.mi*60+nv.s) + int64(nv.hours)*3600
				tj := int(tot / 86400)
				if tj < jdnFirst || tj > r1JDN(9999, 12, 31) {
					continue
				}
				ey, em, ed := r1FromJDN(tj)
				sod := int(tot % 86400)
				want := fmt.Sprintf("%04d-%02d-%02d %02d:%02d:%02d", ey, em, ed, sod/3600, sod/60%60, sod%60)
				var got, gotYmd string
				msg, p := try(func() { o := nv.f(d.At(nv.h, nv.mi, nv.s)); got = o.ToYmdHms(); gotYmd = o.ToYmd() })
				w.R.Transitions++
				w.R.Traces++
				if p {
					w.Viol("C19:nav-print:panic:"+d.Ymd, fmt.Sprintf("%s %s panics: %s", d.Ymd, nv.name, msg), d.Ymd)
				} else if got != want || gotYmd != want[:10] {
					w.Viol("C19:nav-print:"+d.Ymd, fmt.Sprintf("%s %s prints %q / %q, the moment reached is %q", d.Ymd, nv.name, got, gotYmd, want), d.Ymd)
				}
			}
		}
		if d.Y > 9998 {
			return
		}
		// the lunar object is taken at a rotating time of day (late-rat hour included), by a rotating route and with the
		// eight-character convention switched to 1 on every second day (lunarP): the printed date is that of its fields
		tt := []hms{{23, 30, 0}, {12, 0, 0}, {0, 0, 0}}[(d.J/2)%3]
		if d.J%4 == 3 {
			tt = hms{0, 0, 0}
		}
		l := lunarP(d.At(tt.h, tt.m, tt.s), d.J)
		if y, m, dd, ok := r6Parse(l.String()); !ok || y != l.GetYear() || m != l.GetMonth() || dd != l.GetDay() {
			w.Viol("C19:Lunar.String:"+d.Ymd, fmt.Sprintf("%q parses to (%d,%d,%d,%v), lunar date is %s", l.String(), y, m, dd, ok, lunarYmd(l)), d.Ymd)
		}
		if l.String() != l.GetYearInChinese()+"年"+l.GetMonthInChinese()+"月"+l.GetDayInChinese() {
			w.Viol("C19:Lunar.parts:"+d.Ymd, "String differs from its parts", d.Ymd)
		}
		t := l.GetTao()
		if y, m, dd, ok := r6Parse(t.ToString()); !ok || y != t.GetYear() || m != t.GetMonth() || dd != t.GetDay() || t.String() != t.ToString() {
			w.Viol("C19:Tao.ToString:"+d.Ymd, fmt.Sprintf("%q parses to (%d,%d,%d,%v), Tao date is %d/%d/%d", t.ToString(), y, m, dd, ok, t.GetYear(), t.GetMonth(), t.GetDay()), d.Ymd)
		}
		f := l.GetFoto()
		if y, m, dd, ok := r6Parse(f.ToString()); !ok || y != f.GetYear() || m != f.GetMonth() || dd != f.GetDay() || f.String() != f.ToString() {
			w.Viol("C19:Foto.ToString:"+d.Ymd, fmt.Sprintf("%q parses to (%d,%d,%d,%v), Foto date is %d/%d/%d", f.ToString(), y, m, dd, ok, f.GetYear(), f.GetMonth(), f.GetDay()), d.Ymd)
		}
		w.R.Evals += 3
		if l.GetMonth() < 0 || l.GetYear() < 1000 || l.GetDay() == 1 {
			w.R.Nontrivial++
		}
		if l.GetDay() == 1 || prev == nil {
			lm := calendar.NewLunarMonthFromYm(l.GetYear(), l.GetMonth())
			if lm == nil {
				w.Viol("C19:LunarMonth:nil:"+d.Ymd, "NewLunarMonthFromYm returned nil for an existing month "+lunarYmd(l), d.Ymd)
				return
			}
			s := lm.String()
			// "%d年[闰]<month>月(%d)天"
			var yy, dc int
			run := ""
			if lm.IsLeap() {
				run = "闰"
			}
			am := lm.GetMonth()
			if am < 0 {
				am = -am
			}
			want := fmt.Sprintf("%d年%s%s月(%d)天", lm.GetYear(), run, LunarUtil.MONTH[am], lm.GetDayCount())
			i := strings.Index(s, "年")
			if i > 0 {
				fmt.Sscanf(s[:i], "%d", &yy)
			}
			k := strings.Index(s, "(")
			if k > 0 {
				fmt.Sscanf(s[k:], "(%d)", &dc)
			}
			_ = want
			// the statement asks for distinct months to print differently and to carry year, leap marker and month name
			if yy != lm.GetYear() || s == lastLM || !strings.Contains(s, LunarUtil.MONTH[am]) || strings.Contains(s, "闰") != lm.IsLeap() {
				w.Viol("C19:LunarMonth.String:"+d.Ymd, fmt.Sprintf("%q (want %q, previous month printed %q)", s, want, lastLM), d.Ymd)
			}
			lastLM = s
			ly := calendar.NewLunarYear(l.GetYear())
			if ly.String() != fmt.Sprint(l.GetYear()) {
				w.Viol("C19:LunarYear.String:"+d.Ymd, ly.String(), d.Ymd)
			}
		}
		if prev == nil {
			w.Sample(map[string]string{"solar": d.S.ToYmdHms(), "lunar": l.String(), "tao": t.ToString(), "foto": f.ToString()})
		}
	})
}

var signStarts = [][2]int{{3, 21}, {4, 20}, {5, 21}, {6, 22}, {7, 23}, {8, 23}, {9, 23}, {10, 24}, {11, 23}, {12, 22}, {1, 20}, {2, 19}}

func refSign(m, d int) int {
	// the sign whose start (month,day) is the latest one <= (m,d), cyclically
	best, bestKey := -1, -1
	key := m*100 + d
	for i, s := range signStarts {
		k := s[0]*100 + s[1]
		if k <= key && k > bestKey {
			best, bestKey = i, k
		}
	}
	if best < 0 {
		return 9 // before Jan 20: Capricorn (started Dec 22)
	}
	return best
}

func sortedCopy(a []string) []string { b := append([]string{}, a...); sort.Strings(b); return b }

func runC20(w *W) {
	if len(SolarUtil.XINGZUO) != 12 {
		w.Viol("C20:XINGZUO:len", "XINGZUO must have 12 entries", nil)
		return
	}
	type yc struct{ counts map[string]int }
	var cur yc
	curYear := 0
	flush := func() {
		if curYear == 0 {
			return
		}
		for _, name := range SolarUtil.WEEK_FESTIVAL {
			if cur.counts[name] != 1 {
				w.Viol(fmt.Sprintf("C20:once-per-year:%s:%04d", name, curYear), fmt.Sprintf("weekday festival %s reported %d times in %d", name, cur.counts[name], curYear), curYear)
			}
		}
		for _, name := range SolarUtil.FESTIVAL {
			if cur.counts[name] != 1 && !(curYear == 1582) {
				w.Viol(fmt.Sprintf("C20:once-per-year:%s:%04d", name, curYear), fmt.Sprintf("fixed festival %s reported %d times in %d", name, cur.counts[name], curYear), curYear)
			}
		}
	}
	sweepDays(w, "C20", func(d *Day, prev *Day) {
		if d.Y != curYear {
			if prev != nil {
				flush()
			}
			curYear = d.Y
			cur = yc{map[string]int{}}
		}
		// sign
		got := d.S.GetXingZuo()
		want := SolarUtil.XINGZUO[refSign(d.M, d.D)]
		w.R.Evals++
		n := 0
		for _, x := range SolarUtil.XINGZUO {
			if x == got {
				n++
			}
		}
		if n != 1 || got != want || d.S.GetXingzuo() != got {
			w.Viol(fmt.Sprintf("C20:XingZuo:%02d-%02d", d.M, d.D), fmt.Sprintf("%s: sign %q, reference %q", d.Ymd, got, want), d.Ymd)
		}
		nontriv := false
		if prev != nil {
			w.R.Traces++
			pg := prev.S.GetXingZuo()
			if pg != got {
				nontriv = true
				// must be the next sign in order and today must be a conventional start day
				pi, gi := -1, -1
				for i, x := range SolarUtil.XINGZUO {
					if x == pg {
						pi = i
					}
					if x == got {
						gi = i
					}
				}
				if gi != (pi+1)%12 || signStarts[gi][0] != d.M || signStarts[gi][1] != d.D {
					// 1582-10-15 follows 1582-10-04 inside Libra, so no special case is needed
					w.Viol(fmt.Sprintf("C20:XingZuo:run:%02d-%02d", d.M, d.D), fmt.Sprintf("sign changes %s -> %s on %s", pg, got, d.Ymd), d.Ymd)
				}
			}
		}
		// festivals
		var exp []string
		if f, ok := SolarUtil.FESTIVAL[fmt.Sprintf("%d-%d", d.M, d.D)]; ok {
			exp = append(exp, f)
		}
		wd := r1Weekday(d.J)
		// k = number of valid days <= D in this month with the same weekday
		k := 0
		for j := d.J; ; j -= 7 {
			yy, mm, _ := r1FromJDN(j)
			if yy != d.Y || mm != d.M {
				break
			}
			k++
		}
		if f, ok := SolarUtil.WEEK_FESTIVAL[fmt.Sprintf("%d-%d-%d", d.M, k, wd)]; ok {
			exp = append(exp, f)
		}
		if _, mm, _ := r1FromJDN(d.J + 7); mm != d.M {
			if f, ok := SolarUtil.WEEK_FESTIVAL[fmt.Sprintf("%d-0-%d", d.M, wd)]; ok {
				exp = append(exp, f)
			}
		}
		gotF := listStrings(d.S.GetFestivals())
		if strings.Join(sortedCopy(gotF), "|") != strings.Join(sortedCopy(exp), "|") {
			w.Viol("C20:GetFestivals:"+d.Ymd, fmt.Sprintf("%s: festivals %v, reference %v", d.Ymd, gotF, exp), d.Ymd)
		}
		for _, f := range gotF {
			cur.counts[f]++
		}
		gotO := listStrings(d.S.GetOtherFestivals())
		expO := SolarUtil.OTHER_FESTIVAL[fmt.Sprintf("%d-%d", d.M, d.D)]
		if strings.Join(sortedCopy(gotO), "|") != strings.Join(sortedCopy(expO), "|") {
			w.Viol(fmt.Sprintf("C20:GetOtherFestivals:%02d-%02d", d.M, d.D), fmt.Sprintf("%s: other festivals %v, reference %v", d.Ymd, gotO, expO), d.Ymd)
		}
		// the full string reports the same festivals, weekday and sign as the accessors
		if fs := d.S.ToFullString(); true {
			for _, f := range append(append([]string{}, gotF...), gotO...) {
				if !strings.Contains(fs, "("+f+")") {
					w.Viol("C20:ToFullString:"+d.Ymd, fmt.Sprintf("%s: festival %s is reported by the festival accessors but not in ToFullString %q", d.Ymd, f, fs), d.Ymd)
				}
			}
			if !strings.Contains(fs, got) || !strings.Contains(fs, d.Ymd) {
				w.Viol("C20:ToFullString:sign:"+d.Ymd, fmt.Sprintf("%s: ToFullString %q lacks the date or the sign %s", d.Ymd, fs, got), d.Ymd)
			}
		}
		// the answers depend on the date only, not on how the object was obtained
		for _, r := range d.SolarRoutes(prev, d.J%29 == 0) { // the lunar route on every 29th day: all weekdays and month-days
			w.R.Evals++
			rf, ro := listStrings(r.S.GetFestivals()), listStrings(r.S.GetOtherFestivals())
			if r.S.GetXingZuo() != got || r.S.GetWeek() != wd || strings.Join(rf, "|") != strings.Join(gotF, "|") || strings.Join(ro, "|") != strings.Join(gotO, "|") {
				w.Viol("C20:route:"+d.Ymd, fmt.Sprintf("%s obtained by %s (prints %s): sign %s weekday %d festivals %v %v; by NewSolarFromYmd: sign %s weekday %d festivals %v %v",
					d.Ymd, r.Name, r.S.ToYmdHms(), r.S.GetXingZuo(), r.S.GetWeek(), rf, ro, got, wd, gotF, gotO), d.Ymd)
			}
		}
		if len(gotF)+len(gotO) > 0 || nontriv {
			w.R.Nontrivial++
		}
		if d.M == 5 && d.D >= 8 && d.D <= 14 && wd == 0 && d.Y%500 == 24 {
			w.Sample(map[string]interface{}{"day": d.Ymd, "weekday": wd, "kth": k, "festivals": gotF, "sign": got})
		}
		if d.M == 12 && d.D == 31 {
			flush()
			curYear = 0
		}
	})
	// the 366 month-day pairs in fixed years (incl. leap day), sign depends on month and day only
	if len(w.Shard.Ranges) > 0 && w.Shard.Ranges[0][0] == 1 {
		for _, y := range []int{1582, 1900, 2000, 2024} {
			for m := 1; m <= 12; m++ {
				for dd := 1; dd <= 31; dd++ {
					if !r1Valid(y, m, dd) {
						continue
					}
					s := calendar.NewSolarFromYmd(y, m, dd)
					if s.GetXingZuo() != SolarUtil.XINGZUO[refSign(m, dd)] {
						w.Viol(fmt.Sprintf("C20:XingZuo:%02d-%02d", m, dd), fmt.Sprintf("%04d-%02d-%02d sign %s", y, m, dd, s.GetXingZuo()), nil)
					}
					w.R.Evals++
				}
			}
		}
	}
}
