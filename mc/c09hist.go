package main

// C09, long and structured histories. Every shard here is ONE process = one history; what a call returns is recorded
// in functional-dependence tables keyed by the call, so that the same call made after a different history — in the
// same process or in another one — must have returned the same value (two concrete witnesses otherwise).
//
//   longhist  : probe calls and *held objects* at process start; then every lunar month of years 1..9998 is visited
//               (one day each, broad probe), the probes and the held objects are asked again; then ~8,000 out-of-range
//               years are requested (recovered if they panic) and everything is asked a third time. Bounded caches
//               that misbehave once they are full, recycled objects, tables overwritten as a side effect.
//   jumps     : for base inputs b and distances d = +-2^k (years 64..8192, months 1024..65536): hold objects of b, ask
//               about b+d, then ask the held objects and b afresh. Direct-mapped slots, packed keys, truncated tags.
//   firstuse  : the very first call of the process is a structural input (October 1582, a leap day, the range ends,
//               a leap lunar month ...), then a fixed probe set. Lazily built process-wide tables sized by the first
//               caller.
//   junk      : helper functions are first called with unrecognised names (they answer "none"), then their whole key
//               space is enumerated. Memo keys that collide with an invalid-input sentinel.
//   histref   : the reference process: the same keys in plain ascending order with nothing else before them.

import (
	"fmt"
	"sort"
	"strings"

	"github.com/6tail/lunar-go/HolidayUtil"
	"github.com/6tail/lunar-go/LunarUtil"
	"github.com/6tail/lunar-go/SolarUtil"
	"github.com/6tail/lunar-go/calendar"
)

// histProbe: a broad question about one civil day (civil, lunar, almanac, week, holiday, helper level).
func histProbe(y, m, d int) string {
	return safeDigest(func() string {
		s := calendar.NewSolar(y, m, d, 23, 30, 0)
		l := s.GetLunar()
		var sb strings.Builder
		sb.WriteString(s.ToYmdHms() + "|" + fmt.Sprint(s.GetWeek()) + "|" + s.GetXingZuo() + "|" + render1(s.GetFestivals()) + render1(s.GetOtherFestivals()) + "|" + fmt.Sprint(s.GetSalaryRate()) + "|")
		sb.WriteString(l.String() + "|" + l.GetYearInGanZhiExact() + l.GetMonthInGanZhiExact() + l.GetDayInGanZhiExact() + l.GetTimeInGanZhi() + "|" + l.GetJieQi() + "|" + render1(l.GetFestivals()) + render1(l.GetOtherFestivals()) + "|")
		sb.WriteString(l.GetTao().ToFullString() + "|" + l.GetFoto().ToFullString() + fmt.Sprint(l.GetFoto().IsDayZhaiSix(), l.GetFoto().IsDayZhaiGuanYin()) + "|" + l.GetHou() + l.GetWuHou() + "|")
		sb.WriteString(l.GetPrevJie().GetSolar().ToYmdHms() + l.GetNextJieQi().GetName() + "|" + l.GetDayNineStar().String() + l.GetTimeNineStar().String() + l.GetMonthNineStar().String() + l.GetYearNineStar().String() + "|")
		sb.WriteString(render1(l.GetDayYi()) + render1(l.GetDayJi()) + render1(l.GetTimeYi()) + render1(l.GetDayJiShen()) + l.GetXiu() + l.GetZhiXing() + l.GetDayTianShen() + "|")
		if f := l.GetFu(); f != nil {
			sb.WriteString(f.ToFullString())
		}
		if sj := l.GetShuJiu(); sj != nil {
			sb.WriteString(sj.ToFullString())
		}
		ec := l.GetEightChar()
		sb.WriteString("|" + ec.String() + ec.GetTaiYuan() + ec.GetMingGong() + ec.GetDayDiShi() + "|")
		if ly := calendar.NewLunarYear(l.GetYear()); ly != nil {
			sb.WriteString(fmt.Sprint(ly.GetLeapMonth(), ly.GetDayCount(), ly.GetGanZhi(), ly.GetNineStar().String(), len(ly.GetJieQiJulianDays())) + "|")
		}
		if lm := calendar.NewLunarMonthFromYm(l.GetYear(), l.GetMonth()); lm != nil {
			sb.WriteString(lm.String() + lm.GetGanZhi() + lm.GetNineStar().String() + "|")
		}
		for _, st := range []int{0, 1, 6} {
			wk := calendar.NewSolarWeekFromYmd(y, m, d, st)
			sb.WriteString(fmt.Sprint(wk.GetIndex(), wk.GetIndexInYear(), wk.GetFirstDay().ToYmd(), " "))
		}
		sb.WriteString(fmt.Sprint(SolarUtil.GetWeeksOfMonth(y, m, 1), SolarUtil.GetDaysInYear(y, m, d), calendar.NewSolarMonthFromYm(y, m).GetWeeks(1).Len(), s.Subtract(calendar.NewSolarFromYmd(301, 1, 1)), calendar.NewSolarFromYmd(9000, 3, 1).Subtract(s)) + "|")
		if h := HolidayUtil.GetHolidayByYmd(y, m, d); h != nil {
			sb.WriteString(h.String())
		}
		return sb.String()
	})
}

// heldSet: objects of one day that the history keeps alive; heldDigest asks every exported zero-argument accessor.
type heldSet struct {
	objs  []interface{}
	names []string
}

func holdObjects(y, m, d int) (h heldSet) {
	safeDigest(func() string {
		s := calendar.NewSolar(y, m, d, 10, 30, 0)
		l := s.GetLunar()
		add := func(n string, o interface{}) { h.names = append(h.names, n); h.objs = append(h.objs, o) }
		// the lunar date first and the civil date last: asking the civil date converts it again, which would refresh
		// whatever the library shares between lunar dates of one year before the held lunar date has been asked
		add("Lunar", l)
		add("EightChar", l.GetEightChar())
		add("LunarTime", l.GetTime())
		add("Tao", l.GetTao())
		add("Foto", l.GetFoto())
		add("LunarYear", calendar.NewLunarYear(l.GetYear()))
		if lm := calendar.NewLunarMonthFromYm(l.GetYear(), l.GetMonth()); lm != nil {
			add("LunarMonth", lm)
		}
		add("SolarWeek", calendar.NewSolarWeekFromYmd(y, m, d, 1))
		add("SolarMonth", calendar.NewSolarMonthFromYm(y, m))
		add("JieQi", l.GetPrevJieQi())
		add("Solar", s)
		return ""
	})
	return
}

func heldDigest(h heldSet) string {
	var sb strings.Builder
	shallowSlices = false
	for i, o := range h.objs {
		sb.WriteString(h.names[i] + "{" + safeDigest(func() string {
			extra := ""
			if ly, ok := o.(*calendar.LunarYear); ok {
				extra = fmt.Sprint(ly.GetJieQiJulianDays()) + yearDigest(ly)
			}
			return hashStr(digestObject(o, nil) + extra)
		}) + "} ")
	}
	return sb.String()
}

func histKey(y, m, d int) string { return fmt.Sprintf("%04d-%02d-%02d", y, m, d) }

var histYears = []int{1, 2, 3, 7, 19, 100, 237, 301, 808, 1000, 1500, 1582, 1583, 1806, 1900, 1984, 2000, 2023, 2024, 2033, 3510, 4096, 5000, 5561, 8192, 8200, 9000, 9095, 9998}

func histDays() [][3]int {
	var out [][3]int
	for _, y := range histYears {
		out = append(out, [3]int{y, 1, 5}, [3]int{y, 6, 15}, [3]int{y, 10, 31}, [3]int{y, 12, 22})
	}
	out = append(out, [3]int{1582, 10, 4}, [3]int{1582, 10, 15}, [3]int{2000, 2, 29}, [3]int{1500, 2, 29}, [3]int{2023, 3, 22}, [3]int{2033, 12, 22}, [3]int{2020, 3, 21}, [3]int{2023, 11, 14})
	return out
}

// askAll records what the probe days and (optionally) held objects answer now.
func askAll(w *W, table, witness string, days [][3]int, held map[string]heldSet) {
	for _, p := range days {
		k := histKey(p[0], p[1], p[2])
		w.FDCheck(table, k, hashStr(histProbe(p[0], p[1], p[2])), witness)
		w.R.Evals++
		w.R.Transitions++
		if held != nil {
			if h, ok := held[k]; ok {
				w.FDCheck(table+":held-objects", k, hashStr(heldDigest(h)), witness)
			}
		}
	}
	// the exported tables and the holiday record set are part of what later calls read
	w.FDCheck(table+":package-tables", "exported tables", exportedTablesHashNow(), witness)
}

func c09LongHist(w *W) {
	days := histDays()
	held := map[string]heldSet{}
	for _, p := range days {
		held[histKey(p[0], p[1], p[2])] = holdObjects(p[0], p[1], p[2])
	}
	const T = "C09:long-history"
	askAll(w, T, "at process start", days, held)
	// every lunar month of every year, ascending: the 28th day of each (a day several month-length rules look at)
	visited := 0
	for y := 1; y <= 9998; y++ {
		var ms []*calendar.LunarMonth
		safeDigest(func() string {
			for e := calendar.NewLunarYear(y).GetMonthsInYear().Front(); e != nil; e = e.Next() {
				ms = append(ms, e.Value.(*calendar.LunarMonth))
			}
			return ""
		})
		for _, lm := range ms {
			mm := lm.GetMonth()
			heavy := w.Thorough() || visited%37 == 0
			safeDigest(func() string {
				l := calendar.NewLunarFromYmd(y, mm, 28)
				s := l.GetSolar()
				f := l.GetFoto()
				_ = fmt.Sprint(f.IsDayZhaiSix(), l.GetDayInGanZhi(), s.GetWeek(), calendar.NewSolarWeekFromYmd(s.GetYear(), s.GetMonth(), s.GetDay(), 0).GetIndex())
				if heavy {
					_ = fmt.Sprint(f.IsDayZhaiGuanYin(), render1(l.GetDayYi()), l.GetHou(), l.GetDayNineStar().GetIndex(), render1(s.GetFestivals()), lm.String(), l.GetPrevJieQi().GetName(), s.Subtract(calendar.NewSolarFromYmd(s.GetYear(), 1, 1)))
				}
				return ""
			})
			visited++
		}
		w.R.States++
	}
	w.Count("lunar_months_visited", int64(visited))
	askAll(w, T, fmt.Sprintf("after visiting all %d lunar months of years 1..9998 in this process", visited), days, held)
	// requests for years outside the supported range (answered or panicking — recovered either way)
	n := 0
	for y := 9999; y <= 17600; y++ {
		safeDigest(func() string { calendar.NewLunarYear(y); return "" })
		n++
	}
	for y := 0; y >= -400; y-- {
		safeDigest(func() string { calendar.NewLunarYear(y); return "" })
		n++
	}
	w.Count("out_of_range_year_requests", int64(n))
	askAll(w, T, fmt.Sprintf("after all lunar months 1..9998 and %d requests for years outside 1..9998", n), days, held)
	w.R.Nontrivial += int64(3 * len(days))
	w.Sample(map[string]interface{}{"probe_days": len(days), "held_object_sets": len(held), "lunar_months_visited": visited, "out_of_range_year_requests": n})
}

// ---- jumps

type jumpCase struct {
	base [3]int
	far  [3]int
}

func jumpCases() []jumpCase {
	var out []jumpCase
	add := func(b, f [3]int) {
		if f[0] >= 1 && f[0] <= 9998 && b[0] >= 1 && b[0] <= 9998 {
			out = append(out, jumpCase{b, f})
		}
	}
	for _, b := range [][3]int{{100, 3, 15}, {301, 6, 15}, {1583, 1, 1}, {1806, 12, 31}, {2024, 3, 1}, {2024, 6, 15}, {5561, 7, 2}, {9998, 6, 15}} {
		for k := 6; k <= 13; k++ {
			add(b, [3]int{b[0] + 1<<k, b[1], b[2]})
			add(b, [3]int{b[0] - 1<<k, b[1], b[2]})
			add(b, [3]int{(b[0] ^ 1) + 1<<k, b[1], b[2]})
		}
		for k := 10; k <= 16; k++ {
			for _, sg := range []int{1, -1} {
				o := b[0]*12 + b[1] - 1 + sg*(1<<k)
				add(b, [3]int{o / 12, o%12 + 1, 2})
				add([3]int{b[0], b[1], 2}, [3]int{o / 12, o%12 + 1, 2})
			}
		}
	}
	return out
}

func jumpKeys() [][3]int {
	seen := map[[3]int]bool{}
	var out [][3]int
	for _, c := range jumpCases() {
		for _, p := range [][3]int{c.base, c.far} {
			if !seen[p] {
				seen[p] = true
				out = append(out, p)
			}
		}
	}
	sort.Slice(out, func(a, b int) bool {
		return out[a][0]*10000+out[a][1]*100+out[a][2] < out[b][0]*10000+out[b][1]*100+out[b][2]
	})
	return out
}

func c09Jumps(w *W) {
	const T = "C09:jump-independence"
	part := atoi(w.Shard.Arg)
	cases := jumpCases()
	n := 0
	for i, c := range cases {
		if i%4 != part {
			continue
		}
		kb := histKey(c.base[0], c.base[1], c.base[2])
		wit := fmt.Sprintf("directly after asking about %s", histKey(c.far[0], c.far[1], c.far[2]))
		h := holdObjects(c.base[0], c.base[1], c.base[2])
		far := histProbe(c.far[0], c.far[1], c.far[2])
		w.FDCheck(T, histKey(c.far[0], c.far[1], c.far[2]), hashStr(far), "directly after building objects of "+kb)
		w.FDCheck(T+":held-objects", kb, hashStr(heldDigest(h)), "objects built first, asked "+wit)
		w.FDCheck(T, kb, hashStr(histProbe(c.base[0], c.base[1], c.base[2])), wit)
		w.R.Transitions += 3
		w.R.Evals += 3
		n++
	}
	w.R.States += int64(n)
	w.R.Nontrivial += int64(n)
}

// ---- first use

type firstUse struct {
	name string
	f    func()
}

func firstUses() []firstUse {
	fest := func(y, m, d int) func() {
		return func() {
			s := calendar.NewSolarFromYmd(y, m, d)
			s.GetFestivals()
			s.GetOtherFestivals()
			s.ToFullString()
			s.GetLunar().ToFullString()
		}
	}
	return []firstUse{
		{"1582-10-31 (the month with 21 days)", fest(1582, 10, 31)},
		{"1582-10-04", fest(1582, 10, 4)},
		{"1582-10-15", fest(1582, 10, 15)},
		{"1500-02-29 (Julian leap day of a century year)", fest(1500, 2, 29)},
		{"2000-02-29", fest(2000, 2, 29)},
		{"2023-02-28 (February without a 29th)", fest(2023, 2, 28)},
		{"0001-01-01", fest(1, 1, 1)},
		{"9998-12-31", fest(9998, 12, 31)},
		{"leap lunar month printed first", func() {
			_ = calendar.NewLunarMonthFromYm(2023, -2).String()
			_ = fmt.Sprint(calendar.NewLunarMonthFromYm(2033, -11))
			_ = calendar.NewLunarFromYmd(2023, -2, 15).ToFullString()
		}},
		{"lunar year 237 (skipped third month) first", func() {
			_ = calendar.NewLunarFromYmd(237, 4, 1).ToFullString()
			_ = yearDigest(calendar.NewLunarYear(237))
		}},
		{"lunar year 19 first", func() { _ = yearDigest(calendar.NewLunarYear(19)) }},
		{"late-rat moment with convention 1 first", func() {
			l := calendar.NewSolar(2024, 5, 10, 23, 30, 0).GetLunar()
			l.GetEightChar().SetSect(1)
			_ = l.GetEightChar().String() + l.ToFullString() + l.GetEightChar().GetYun(0).GetStartSolar().ToYmd()
		}},
		{"short month (29 days) day 29 first", func() { _ = calendar.NewLunarFromYmd(2024, 3, 29).ToFullString() }},
	}
}

func firstUseKeys() [][3]int {
	var out [][3]int
	for _, y := range []int{4, 1500, 1581, 1582, 1583, 1600, 1900, 2000, 2023, 2024, 9998} {
		for m := 1; m <= 12; m++ {
			out = append(out, [3]int{y, m, 1}, [3]int{y, m, r1LastDay(y, m)})
			if r1Valid(y, m, 15) {
				out = append(out, [3]int{y, m, 15})
			}
		}
	}
	return out
}

func c09FirstUse(w *W) {
	const T = "C09:first-use-independence"
	i := atoi(w.Shard.Arg)
	fu := firstUses()[i]
	if msg, p := try(fu.f); p {
		w.R.Notes = append(w.R.Notes, "first-use call "+fu.name+" panicked (recovered): "+msg)
	}
	for _, p := range firstUseKeys() {
		w.FDCheck(T, histKey(p[0], p[1], p[2]), hashStr(histProbe(p[0], p[1], p[2])), "in a process whose first call was about "+fu.name)
		w.R.Evals++
		w.R.Transitions++
	}
	w.FDCheck(T+":package-tables", "exported tables", exportedTablesHashNow(), "in a process whose first call was about "+fu.name)
	w.R.States++
	w.R.Nontrivial++
}

// ---- junk arguments to the helper functions, then their whole key space

func utilKeySpace(w *W, table, witness string) {
	ask := func(name string, f func() string) {
		w.FDCheck(table, name, hashStr(safeDigest(f)), witness)
		w.R.Evals++
	}
	for mi := 0; mi < 60; mi++ {
		for di := 0; di < 60; di++ {
			m, d := gz(mi), gz(di)
			ask("GetDayYi|"+m+"|"+d, func() string { return render1(LunarUtil.GetDayYi(m, d)) })
			ask("GetDayJi|"+m+"|"+d, func() string { return render1(LunarUtil.GetDayJi(m, d)) })
			if mi%5 == 0 {
				ask("GetTimeYi|"+m+"|"+d, func() string { return render1(LunarUtil.GetTimeYi(m, d)) })
				ask("GetTimeJi|"+m+"|"+d, func() string { return render1(LunarUtil.GetTimeJi(m, d)) })
			}
		}
	}
	for lm := 1; lm <= 12; lm++ {
		for di := 0; di < 60; di++ {
			d := gz(di)
			ask(fmt.Sprintf("GetDayJiShen|%d|%s", lm, d), func() string { return render1(LunarUtil.GetDayJiShen(lm, d)) })
			ask(fmt.Sprintf("GetDayXiongSha|%d|%s", lm, d), func() string { return render1(LunarUtil.GetDayXiongSha(lm, d)) })
		}
	}
	for i := 0; i < 60; i++ {
		g := gz(i)
		ask("xun|"+g, func() string {
			return fmt.Sprint(LunarUtil.GetJiaZiIndex(g), LunarUtil.GetXun(g), LunarUtil.GetXunKong(g), LunarUtil.GetXunIndex(g), LunarUtil.NAYIN[g])
		})
	}
	for h := 0; h < 24; h++ {
		hm := fmt.Sprintf("%02d:30", h)
		ask("time|"+hm, func() string { return fmt.Sprint(LunarUtil.GetTimeZhiIndex(hm), LunarUtil.ConvertTime(hm)) })
	}
}

func c09Junk(w *W) {
	const T = "C09:helper-key-space"
	if w.Shard.Arg == "ref" {
		utilKeySpace(w, T, "in a process that asked nothing else before")
		return
	}
	junk := []string{"", "??", "甲", "子", "甲子甲", "癸亥 ", "ab"}
	n := 0
	for _, j := range junk {
		for _, v := range []string{gz(0), gz(13), gz(59), "丁丑", "庚辰", "戊寅"} {
			for _, f := range []func(){
				func() { LunarUtil.GetDayYi(j, v) }, func() { LunarUtil.GetDayYi(v, j) }, func() { LunarUtil.GetDayJi(j, v) }, func() { LunarUtil.GetDayJi(v, j) },
				func() { LunarUtil.GetTimeYi(j, v) }, func() { LunarUtil.GetTimeYi(v, j) }, func() { LunarUtil.GetTimeJi(j, v) }, func() { LunarUtil.GetTimeJi(v, j) },
				func() { LunarUtil.GetDayJiShen(0, j) }, func() { LunarUtil.GetDayJiShen(13, v) }, func() { LunarUtil.GetDayXiongSha(-1, v) }, func() { LunarUtil.GetDayXiongSha(5, j) },
				func() { LunarUtil.GetJiaZiIndex(j) }, func() { LunarUtil.GetXun(j) }, func() { LunarUtil.GetXunKong(j) }, func() { LunarUtil.GetTimeZhiIndex(j) }, func() { LunarUtil.ConvertTime(j) },
				func() { HolidayUtil.GetHoliday(j) }, func() { HolidayUtil.GetHolidays(j) }, func() { HolidayUtil.GetHolidaysByTarget(j) },
			} {
				try(f)
				n++
			}
		}
	}
	w.Count("junk_calls", int64(n))
	utilKeySpace(w, T, fmt.Sprintf("after %d helper calls with unrecognised names (recovered where they panic)", n))
	// and the date level afterwards
	for _, p := range [][3]int{{2020, 3, 21}, {2023, 11, 14}, {2024, 5, 19}, {2000, 1, 1}} {
		w.FDCheck("C09:long-history", histKey(p[0], p[1], p[2]), hashStr(histProbe(p[0], p[1], p[2])), "after helper calls with unrecognised names")
	}
	w.R.States++
	w.R.Nontrivial += int64(n)
}

// c09HistRef: the reference process — every key of the jump, first-use and long-history tables in ascending order,
// objects asked immediately after they are built.
func c09HistRef(w *W) {
	for _, p := range jumpKeys() {
		k := histKey(p[0], p[1], p[2])
		h := holdObjects(p[0], p[1], p[2])
		w.FDCheck("C09:jump-independence:held-objects", k, hashStr(heldDigest(h)), "asked directly after being built, ascending order")
		w.FDCheck("C09:jump-independence", k, hashStr(histProbe(p[0], p[1], p[2])), "ascending order, nothing else before")
		w.R.Evals += 2
	}
	for _, p := range firstUseKeys() {
		w.FDCheck("C09:first-use-independence", histKey(p[0], p[1], p[2]), hashStr(histProbe(p[0], p[1], p[2])), "ascending order, nothing else before")
		w.R.Evals++
	}
	w.FDCheck("C09:first-use-independence:package-tables", "exported tables", exportedTablesHashNow(), "ascending order, nothing else before")
	w.R.States++
}
