package main

// C03 — solar terms: roots of the longitude function, ordered, shared between adjacent tables,
// looked up correctly. Engine E1 over year tables and days; references: the library's own
// ephemeris through the verif export (root check at one-second precision), R3 (independent,
// ~15 min), and max/min over the table for the lookups.

import (
	"fmt"
	"math"
	"strings"

	"github.com/6tail/lunar-go/ShouXingUtil"
	"github.com/6tail/lunar-go/calendar"
)

var canonicalTerms = []string{"DA_XUE", "冬至", "小寒", "大寒", "立春", "雨水", "惊蛰", "春分", "清明", "谷雨", "立夏", "小满", "芒种", "夏至", "小暑", "大暑", "立秋", "处暑", "白露", "秋分", "寒露", "霜降", "立冬", "小雪", "大雪", "DONG_ZHI", "XIAO_HAN", "DA_HAN", "LI_CHUN", "YU_SHUI", "JING_ZHE"}

func init() {
	register(&Check{
		ID:     "C03",
		Rule:   "every year table in the year set (thorough: 1..9998) x 31 entries: (a) the reported instant is a root of the library's own apparent-longitude function (verif export) for the entry's multiple of 15 deg within the one-second rounding of the table; (b) R3's independent longitude at the instant within 20 min + delta-T model spread (years 1..3000); (c) canonical names, strictly increasing, gaps 14.6..15.8 days, entries 24..30 of year Y equal entries 0..6 of year Y+1 to the second; (d) for every entry x {t-1s, t, t+1s, 00:00:00, 23:59:59 of its day} all 12 prev/next lookups against max/min over the table of the query's own lunar object; on every day of the year set GetJieQi/GetJie/GetQi/GetCurrent* against 'the entry whose civil date is that day'. non-trivial = lookups whose query is within one second of a term instant, and days carrying a term",
		Assume: []string{"the root check uses the library's own series (exported under the verif tag) — it shows the table is what the ephemeris says, R3 shows the ephemeris is right to ~15 min", "R3 = Meeus ch.25 + Espenak-Meeus delta-T, self-tested against published values at start-up"},
		Shards: func(tier string, seed int64) []Shard { return yearShards(tier, seed, 9998, "") },
		Run:    runC03,
		Bounds: func(tier string) map[string]interface{} {
			return map[string]interface{}{"root_tolerance_arcsec": rootTolArcsec, "r3_margin_min": "20 + |dT_lib - dT_EM|", "gap_days": []float64{14.6, 15.8}}
		},
		MinNontrivial: 100,
	})
}

// 0.0411 arcsec per second of time. Two seconds: the table instants are rounded to the second and come
// from a two-step Newton iteration whose residual reaches ~1 s at |T| ~ 80 centuries (measured: 0.041"
// unrounded near year 9990, below 0.01" before year 6000).
const rootTolArcsec = 0.0822

func angDiffDeg(a, b float64) float64 {
	d := math.Mod(a-b, 360)
	if d > 180 {
		d -= 360
	}
	if d < -180 {
		d += 360
	}
	return d
}

func jqStr(j *calendar.JieQi) string {
	if j == nil {
		return "nil"
	}
	return j.GetName() + "@" + j.GetSolar().ToYmdHms()
}

// c03LonTol: what the low-precision theory R3 can decide. Its published accuracy is 0.01 deg near J2000; the terms it
// neglects grow with the cube of the time from J2000 (T in centuries), reaching a few tenths of a degree at the ends
// of the range. The tolerance is that envelope, not a fit to the library: 0.02 deg + 0.5 deg * (|T|/80)^3.
func c03LonTol(y int) float64 {
	t := math.Abs(float64(y)-2000) / 100
	return 0.02 + 0.5*math.Pow(t/80, 3)
}

var c03MaxLonOff float64

func runC03(w *W) {
	perturbCache = true
	if bad := r3SelfTest(); len(bad) > 0 {
		panic("R3 self-test failed: " + fmt.Sprint(bad))
	}
	var maxRoot, maxR3 float64
	for _, r := range w.Shard.Ranges {
		for y := r[0]; y <= r[1]; y++ {
			c03Year(w, y, &maxRoot, &maxR3)
		}
	}
	w.R.Notes = append(w.R.Notes, fmt.Sprintf("shard %v: max root residual %.4f arcsec, max R3 offset %.2f min, max R3 longitude offset with the library's delta-T %.4f deg", w.Shard.Ranges, maxRoot, maxR3, c03MaxLonOff))
	// daily term names
	walkLunar = true
	sweepDays(w, "C03", func(d *Day, prev *Day) {
		l := d.L()
		// objects reached by navigation carry the same term table and give the same lookups as the directly built one:
		// the sweep's walking object (Next(1) since the start of the range), one backward hop, and a far hop either way
		{
			sig := func(x *calendar.Lunar) string {
				var b strings.Builder
				for _, t := range termsOf(x) {
					b.WriteString(t.Key + "@" + t.S.ToYmdHms() + " ")
				}
				jq := func(q *calendar.JieQi) string {
					if q == nil {
						return "nil"
					}
					return q.GetName() + "@" + q.GetSolar().ToYmdHms()
				}
				b.WriteString("|" + x.GetJieQi() + "|" + x.GetJie() + "|" + x.GetQi() + "|" + jq(x.GetPrevJieQi()) + "|" + jq(x.GetNextJieQi()) + "|" + jq(x.GetPrevJie()) + "|" + jq(x.GetNextJie()) + "|" + jq(x.GetPrevQi()) + "|" + jq(x.GetNextQi()) + "|" + jq(x.GetCurrentJieQi()))
				return b.String()
			}
			want := sig(l)
			routes := map[string]*calendar.Lunar{"walking object (Next(1) since the start of the range)": curWalk}
			far := []int{27, 28, 29, 30, 1, 59}[d.J%6]
			for _, n := range []int{-1, far, -far} {
				n := n
				var o *calendar.Lunar
				try(func() { o = d.S.NextDay(-n).GetLunar().Next(n) })
				routes[fmt.Sprintf("object of the day %d days away .Next(%d)", -n, n)] = o
			}
			if d.J%3 == 0 || l.GetJieQi() != "" {
				// an object that was asked everything else first (visiting order rotating with the day); on term days and on
				// every third day
				o := d.S.GetLunar()
				askAllLunar(o, d.J)
				routes["directly built object after every other accessor was called on it"] = o
			}
			for name, o := range routes {
				if o == nil || o.GetSolar().ToYmdHms() != d.S.ToYmdHms() {
					continue
				}
				w.R.Transitions++
				var got string
				if msg, p := try(func() { got = sig(o) }); p {
					w.Viol("C03:route:panic:"+d.Ymd, fmt.Sprintf("%s: term lookups panic on the %s: %s", d.Ymd, name, msg), d.Ymd)
				} else if got != want {
					w.Viol("C03:route:"+d.Ymd, fmt.Sprintf("%s: term table / lookups differ between the directly built lunar date and the %s: %s", d.Ymd, name, firstDiffWords(strings.ReplaceAll(want, "|", " "), strings.ReplaceAll(got, "|", " "))), d.Ymd)
				}
			}
		}
		want, wantJie, wantQi := "", "", ""
		for _, t := range termsOf(l) {
			if t.J == d.J {
				if want == "" {
					want = termName(t.Key)
				}
				if t.Idx%2 == 0 {
					wantJie = termName(t.Key)
				} else {
					wantQi = termName(t.Key)
				}
			}
		}
		w.R.Evals++
		if want != "" {
			w.R.Nontrivial++
		}
		if l.GetJieQi() != want || l.GetJie() != wantJie || l.GetQi() != wantQi {
			w.Viol("C03:day-term:"+d.Ymd, fmt.Sprintf("%s: GetJieQi/GetJie/GetQi = %q/%q/%q, table says %q/%q/%q", d.Ymd, l.GetJieQi(), l.GetJie(), l.GetQi(), want, wantJie, wantQi), d.Ymd)
		}
		// prev/next lookups at noon of every day (mid-interval queries; the breakpoints are covered per table entry below)
		{
			ln := d.At(12, 0, 0).GetLunar()
			tq := termsOf(ln)
			q := int64(d.J)*86400 + 43200
			best := [4]int{-1, -1, -1, -1} // prev any, next any, prev jie, next jie
			for i, x := range tq {
				after := x.inst() > q
				for k := 0; k < 4; k++ {
					if k >= 2 && x.Idx%2 != 0 {
						continue
					}
					fwd := k%2 == 1
					if fwd && after && (best[k] < 0 || x.inst() < tq[best[k]].inst()) {
						best[k] = i
					}
					if !fwd && !after && (best[k] < 0 || x.inst() > tq[best[k]].inst()) {
						best[k] = i
					}
				}
			}
			got := []*calendar.JieQi{ln.GetPrevJieQi(), ln.GetNextJieQi(), ln.GetPrevJie(), ln.GetNextJie()}
			for k, g := range got {
				wantS := "nil"
				if best[k] >= 0 {
					wantS = termName(tq[best[k]].Key) + "@" + tq[best[k]].S.ToYmdHms()
				}
				w.R.Transitions++
				if jqStr(g) != wantS {
					w.Viol(fmt.Sprintf("C03:lookup:noon:%d:%s", k, d.Ymd), fmt.Sprintf("lookup %d (0 prev, 1 next, 2 prev Jie, 3 next Jie) at %s 12:00:00 = %s, table says %s", k, d.Ymd, jqStr(g), wantS), d.Ymd)
				}
			}
		}
		cj, cjie, cqi := l.GetCurrentJieQi(), l.GetCurrentJie(), l.GetCurrentQi()
		if (cj != nil) != (want != "") || (cjie != nil) != (wantJie != "") || (cqi != nil) != (wantQi != "") {
			w.Viol("C03:current-term:"+d.Ymd, d.Ymd+": GetCurrent* presence disagrees with the table", d.Ymd)
		}
		if cj != nil && (cj.GetName() != want || cj.IsJie() != (wantJie != "") || cj.IsQi() != (wantQi != "") || cj.GetSolar().ToYmd() != d.Ymd) {
			w.Viol("C03:current-term:"+d.Ymd, fmt.Sprintf("%s: current term %s jie=%v qi=%v", d.Ymd, cj.GetName(), cj.IsJie(), cj.IsQi()), d.Ymd)
		}
	})
}

func c03Year(w *W, y int, maxRoot, maxR3 *float64) {
	var ly *calendar.LunarYear
	var l *calendar.Lunar
	if msg, p := try(func() { ly = calendar.NewLunarYear(y); l = calendar.NewSolarFromYmd(y, 6, 1).GetLunar() }); p {
		w.Viol(fmt.Sprintf("C03:panic:%d", y), msg, y)
		return
	}
	w.R.States++
	jds := ly.GetJieQiJulianDays()
	terms := termsOf(l)
	if len(jds) != 31 || len(terms) != 31 {
		w.Viol(fmt.Sprintf("C03:table-size:%d", y), fmt.Sprintf("%d julian days, %d table entries", len(jds), len(terms)), y)
		return
	}
	for i, t := range terms {
		w.R.Evals++
		w.R.Transitions++
		if t.Key != canonicalTerms[i] {
			w.Viol(fmt.Sprintf("C03:names:%d", y), fmt.Sprintf("entry %d of year %d is %q, canonical order has %q", i, y, t.Key, canonicalTerms[i]), y)
		}
		// table Solar = rounded Julian day
		if math.Abs(t.S.GetJulianDay()-jds[i])*86400 > 0.5001 {
			w.Viol(fmt.Sprintf("C03:rounding:%d:%d", y, i), fmt.Sprintf("year %d entry %s: Solar %s is %.3f s from the table's Julian day", y, t.Key, t.S.ToYmdHms(), (t.S.GetJulianDay()-jds[i])*86400), y)
		}
		if i > 0 {
			gap := jds[i] - jds[i-1]
			if !(gap > 0) || gap < 14.6 || gap > 15.8 || !(terms[i].inst() > terms[i-1].inst()) {
				w.Viol(fmt.Sprintf("C03:gap:%d:%d", y, i), fmt.Sprintf("year %d: %s follows %s by %.4f days", y, t.Key, terms[i-1].Key, gap), y)
			}
		}
		wantLon := math.Mod(255+15*float64(i), 360)
		// (a) root of the library's own longitude function
		t8 := jds[i] - 2451545.0 // days from J2000, UTC+8
		tt := t8 - 1.0/3
		for k := 0; k < 4; k++ {
			tt = t8 - 1.0/3 + ShouXingUtil.VerifDtT(tt)
		}
		lon := ShouXingUtil.VerifSaLon(tt/36525, -1) * 180 / math.Pi
		resid := math.Abs(angDiffDeg(lon, wantLon)) * 3600
		if resid > *maxRoot {
			*maxRoot = resid
		}
		// rounded to the second on top of the residual
		ttR := (t.S.GetJulianDay() - 2451545.0) - 1.0/3 + ShouXingUtil.VerifDtT(tt)
		lonR := ShouXingUtil.VerifSaLon(ttR/36525, -1) * 180 / math.Pi
		if r := math.Abs(angDiffDeg(lonR, wantLon)) * 3600; r > rootTolArcsec {
			w.Viol(fmt.Sprintf("C03:root:%d:%s", y, t.Key), fmt.Sprintf("year %d %s at %s: the library's own apparent longitude there is %.6f deg, %.3f arcsec (%.1f s of time) from %g deg", y, t.Key, t.S.ToYmdHms(), lonR, r, r/0.0411, wantLon), y)
		}
		w.R.Traces++
		// (b) independent
		if y <= 3000 {
			jdUT := jds[i] - 8.0/24
			dec := decimalYearOfJD(jdUT)
			dtEM := deltaTEM(dec)
			dtLib := ShouXingUtil.VerifDtT(tt) * 86400
			l3 := r3SunLon(jdUT + dtEM/86400)
			offMin := math.Abs(angDiffDeg(l3, wantLon)) / (360.0 / 365.2422 / 1440)
			margin := 20 + math.Abs(dtLib-dtEM)/60
			if offMin > *maxR3 {
				*maxR3 = offMin
			}
			if offMin > margin {
				w.Viol(fmt.Sprintf("C03:independent:%d:%s", y, t.Key), fmt.Sprintf("year %d %s at %s: the independent ephemeris puts the sun %.1f min of time from %g deg (margin %.1f min; delta-T lib %.0f s, E-M %.0f s)", y, t.Key, t.S.ToYmdHms(), offMin, wantLon, margin, dtLib, dtEM), y)
			}
		}
	}
	// (c) independent longitude over the whole range, with the library's own delta-T (the far past and future differ
	// between delta-T models by hours, which is not C03's subject): the low-precision solar theory R3 must put the sun
	// within c03LonTolDeg of the term's multiple of 15 degrees at the reported instant
	for i, t := range terms {
		if i >= len(jds) {
			break
		}
		wantLon := math.Mod(255+15*float64(i), 360)
		t8 := jds[i] - 2451545.0
		tt := t8 - 1.0/3
		for k := 0; k < 4; k++ {
			tt = t8 - 1.0/3 + ShouXingUtil.VerifDtT(tt)
		}
		off := math.Abs(angDiffDeg(r3SunLon(tt+2451545.0), wantLon))
		if off > c03MaxLonOff {
			c03MaxLonOff = off
		}
		if off > c03LonTol(y) {
			w.Viol(fmt.Sprintf("C03:independent-longitude:%d:%s", y, t.Key), fmt.Sprintf("year %d %s at %s: the independent solar theory (with the library's delta-T) puts the sun %.3f deg from %g deg (tolerance %.3f deg)", y, t.Key, t.S.ToYmdHms(), off, wantLon, c03LonTol(y)), y)
		}
	}
	// shared entries with the next year's table
	if y < 9998 {
		var l2 *calendar.Lunar
		if _, p := try(func() { l2 = calendar.NewSolarFromYmd(y+1, 6, 1).GetLunar() }); !p {
			t2 := termsOf(l2)
			j2 := calendar.NewLunarYear(y + 1).GetJieQiJulianDays()
			for k := 0; k <= 6 && len(t2) == 31; k++ {
				w.R.Traces++
				if terms[24+k].S.ToYmdHms() != t2[k].S.ToYmdHms() || math.Abs(jds[24+k]-j2[k])*86400 > 0.5 {
					w.Viol(fmt.Sprintf("C03:shared:%d:%d", y, k), fmt.Sprintf("table %d entry %s = %s but table %d entry %s = %s", y, terms[24+k].Key, terms[24+k].S.ToYmdHms(), y+1, t2[k].Key, t2[k].S.ToYmdHms()), y)
				}
			}
		}
	}
	// (d) lookups around every entry whose civil year is in range
	for _, t := range terms {
		if t.S.GetYear() < 1 || t.S.GetYear() > 9998 {
			continue
		}
		for qi, off := range []int64{-1, 0, 1, -int64(t.Sec), 86399 - int64(t.Sec)} {
			q := t.inst() + off
			qj, qs := int(q/86400), int(q%86400)
			qy, qm, qd := r1FromJDN(qj)
			if qy < 1 || qy > 9998 {
				continue
			}
			qSolar := calendar.NewSolar(qy, qm, qd, qs/3600, qs/60%60, qs%60)
			lq := qSolar.GetLunar()
			tq := termsOf(lq)
			if qi < 3 {
				w.R.Nontrivial++
			}
			ref := func(forward, wholeDay bool, kind int) string { // kind 0 any, 1 jie, 2 qi
				best := -1
				for i, x := range tq {
					if kind == 1 && x.Idx%2 != 0 || kind == 2 && x.Idx%2 != 1 {
						continue
					}
					var after bool
					if wholeDay {
						after = x.J > qj
					} else {
						after = x.inst() > q
					}
					if forward && after && (best < 0 || x.inst() < tq[best].inst()) {
						best = i
					}
					if !forward && !after && (best < 0 || x.inst() > tq[best].inst()) {
						best = i
					}
				}
				if best < 0 {
					return "nil"
				}
				return termName(tq[best].Key) + "@" + tq[best].S.ToYmdHms()
			}
			type lk struct {
				name    string
				got     *calendar.JieQi
				fwd, wd bool
				kind    int
			}
			lks := []lk{
				{"GetPrevJieQi", lq.GetPrevJieQi(), false, false, 0}, {"GetNextJieQi", lq.GetNextJieQi(), true, false, 0},
				{"GetPrevJie", lq.GetPrevJie(), false, false, 1}, {"GetNextJie", lq.GetNextJie(), true, false, 1},
				{"GetPrevQi", lq.GetPrevQi(), false, false, 2}, {"GetNextQi", lq.GetNextQi(), true, false, 2},
				{"GetPrevJieQiByWholeDay", lq.GetPrevJieQiByWholeDay(true), false, true, 0}, {"GetNextJieQiByWholeDay", lq.GetNextJieQiByWholeDay(true), true, true, 0},
				{"GetPrevJieByWholeDay", lq.GetPrevJieByWholeDay(true), false, true, 1}, {"GetNextJieByWholeDay", lq.GetNextJieByWholeDay(true), true, true, 1},
				{"GetPrevQiByWholeDay", lq.GetPrevQiByWholeDay(true), false, true, 2}, {"GetNextQiByWholeDay", lq.GetNextQiByWholeDay(true), true, true, 2},
			}
			for _, x := range lks {
				w.R.Evals++
				w.R.Transitions++
				want := ref(x.fwd, x.wd, x.kind)
				if got := jqStr(x.got); got != want {
					w.Viol(fmt.Sprintf("C03:lookup:%s:%s", x.name, qSolar.ToYmdHms()), fmt.Sprintf("%s at %s = %s, table says %s", x.name, qSolar.ToYmdHms(), got, want), qSolar.ToYmdHms())
				}
				if x.got != nil && (x.got.IsJie() == x.got.IsQi() || (x.kind == 1 && !x.got.IsJie()) || (x.kind == 2 && !x.got.IsQi())) {
					w.Viol(fmt.Sprintf("C03:lookup:kind:%s:%s", x.name, qSolar.ToYmdHms()), "IsJie/IsQi inconsistent with the lookup kind", qSolar.ToYmdHms())
				}
			}
		}
	}
	if y%97 == 24 {
		w.Sample(map[string]interface{}{"year": y, "lichun": terms[4].S.ToYmdHms(), "dongzhi": terms[25].S.ToYmdHms()})
	}
}
