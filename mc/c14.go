package main

// C14 — holiday views are views of one record set; workday stepping; pay rate; Fix machine.
// E1 (every day of the table's span) + E2 (BFS over Fix histories on the real package state).

import (
	"container/list"
	"encoding/json"
	"fmt"
	"os"
	"os/exec"
	"sort"
	"strings"

	"github.com/6tail/lunar-go/HolidayUtil"
	"github.com/6tail/lunar-go/calendar"
)

type hrec struct {
	day    string // YYYYMMDD
	name   string
	work   bool
	target string // YYYYMMDD
}

func (r hrec) String() string { return fmt.Sprintf("%s/%s/%v/%s", r.day, r.name, r.work, r.target) }

// R5: parse the live table into a record map (reference model state).
func r5Parse(names []string, data string) (map[string]hrec, []string, bool) {
	m := map[string]hrec{}
	var order []string
	for i := 0; i+18 <= len(data); i += 18 {
		s := data[i : i+18]
		idx := int(s[8] - '0')
		nm := "?"
		if idx >= 0 && idx < len(names) {
			nm = names[idx]
		}
		m[s[:8]] = hrec{s[:8], nm, s[9] == '0', s[10:18]}
		order = append(order, s[:8])
	}
	return m, order, sort.StringsAreSorted(order)
}

func dash(s string) string { return s[:4] + "-" + s[4:6] + "-" + s[6:] }

func holStr(h *HolidayUtil.Holiday) string {
	if h == nil {
		return "nil"
	}
	return strings.Replace(h.GetDay(), "-", "", -1) + "/" + h.GetName() + "/" + fmt.Sprint(h.IsWork()) + "/" + strings.Replace(h.GetTarget(), "-", "", -1)
}

func holList(l *list.List) []string {
	var out []string
	for e := l.Front(); e != nil; e = e.Next() {
		out = append(out, holStr(e.Value.(*HolidayUtil.Holiday)))
	}
	return out
}

func r5Filter(m map[string]hrec, pred func(hrec) bool) []string {
	var out []string
	var days []string
	for d := range m {
		days = append(days, d)
	}
	sort.Strings(days)
	for _, d := range days {
		if pred(m[d]) {
			out = append(out, m[d].String())
		}
	}
	return out
}

func init() {
	register(&Check{
		ID:     "C14",
		Rule:   "E1 on the pristine table: all records; every day 2001-01-01..(last year+1)-12-31 x {GetHoliday, GetHolidayByYmd, GetHolidays (dashed and undashed keys)}; every month and year x by-month/by-year views; every distinct target and every non-target day x by-target views; Solar.Next(n,true) for every day x n in +-{1..10,15,30} and 0; GetSalaryRate on every day; all compared with reference R5 (parsed record map, sorted filters, day-by-day working-day walk). E2: every Fix history over an alphabet of 33 fix-up calls (incl. a 12-entry name table and records with the 10th..12th name) to depth 2 (quick); thorough adds every depth-3 history whose second and third call come from a 17-call core alphabet (one per structural kind); each history executed in its own fresh process (no harness reset), with all views, the workday walk and the pay rate around the affected days observed on the pristine table first and re-compared with R5 after every fix-up. non-trivial = days carrying a record or lying within 10 days of one, and every Fix transition",
		Assume: []string{"R5: Fix(names, data) = for each 18-character segment insert/overwrite the record of its day, or delete it when the flag is '~'; views are date-ordered filters", "statutory pay-rate days as documented in Solar.GetSalaryRate (Jan 1, May 1, Oct 1-3, lunar 1/1-3, 5/5, 8/15, Qingming day) with lunar dates and Qingming from the library"},
		Shards: func(tier string, seed int64) []Shard {
			sh := []Shard{{Kind: "views", Tier: tier, Seed: seed}, {Kind: "walk", Arg: "0", Tier: tier, Seed: seed}, {Kind: "walk", Arg: "1", Tier: tier, Seed: seed}, {Kind: "walk", Arg: "2", Tier: tier, Seed: seed}, {Kind: "walk", Arg: "3", Tier: tier, Seed: seed}}
			for i := range c14FixOps() {
				sh = append(sh, Shard{Kind: "fix", Arg: fmt.Sprint(i), Tier: tier, Seed: seed})
			}
			return sh
		},
		Run:           runC14,
		MinNontrivial: 50,
	})
}

// c14Views compares every view with R5 for the current live state. years: span to cover.
func c14Views(w *W, ctx string, fpPrefix string, classFP string, dayYears map[int]bool) {
	names, data := HolidayUtil.VerifState()
	m, order, sorted := r5Parse(names, data)
	if len(data)%18 != 0 {
		w.Viol(fpPrefix+":table-length", fmt.Sprintf("%s: table length %d is not a multiple of 18", ctx, len(data)), ctx)
	}
	if len(m) != len(order) {
		w.Viol(fpPrefix+":duplicate-day", fmt.Sprintf("%s: %d records but %d distinct days", ctx, len(order), len(m)), ctx)
	}
	fp := func(site string) string {
		if !sorted && classFP != "" {
			return classFP
		}
		return fpPrefix + ":" + site
	}
	if len(order) == 0 {
		return
	}
	sortedDays := append([]string{}, order...)
	sort.Strings(sortedDays)
	y0 := atoi(sortedDays[0][:4]) - 1
	y1 := atoi(sortedDays[len(sortedDays)-1][:4]) + 1
	cmp := func(site, key string, got, want []string) {
		w.R.Evals++
		w.R.Traces++
		if strings.Join(got, ",") != strings.Join(want, ",") {
			w.Viol(fp(site+":"+key), fmt.Sprintf("%s: %s(%s) = %v, record set says %v", ctx, site, key, clipList(got), clipList(want)), key)
		}
	}
	targets := map[string]bool{}
	for _, r := range m {
		targets[r.target] = true
	}
	for y := y0; y <= y1; y++ {
		ys := fmt.Sprintf("%04d", y)
		var got []string
		if msg, p := try(func() { got = holList(HolidayUtil.GetHolidaysByYear(y)) }); p {
			w.Viol(fp("GetHolidaysByYear:panic"), ctx+": "+msg, ys)
			continue
		}
		cmp("GetHolidaysByYear", ys, got, r5Filter(m, func(r hrec) bool { return r.day[:4] == ys }))
		cmp("GetHolidays", ys, holList(HolidayUtil.GetHolidays(ys)), r5Filter(m, func(r hrec) bool { return r.day[:4] == ys }))
		if dayYears != nil && !dayYears[y] {
			continue
		}
		for mo := 1; mo <= 12; mo++ {
			ym := fmt.Sprintf("%04d%02d", y, mo)
			cmp("GetHolidaysByYm", ym, holList(HolidayUtil.GetHolidaysByYm(y, mo)), r5Filter(m, func(r hrec) bool { return r.day[:6] == ym }))
			for dd := 1; dd <= r1LastDay(y, mo); dd++ {
				day := fmt.Sprintf("%04d%02d%02d", y, mo, dd)
				want := "nil"
				var wantL []string
				if r, ok := m[day]; ok {
					want = r.String()
					wantL = []string{want}
					w.R.Nontrivial++
				}
				w.R.States++
				cmp("GetHoliday", day, []string{holStr(HolidayUtil.GetHoliday(day))}, []string{want})
				cmp("GetHoliday(dashed)", day, []string{holStr(HolidayUtil.GetHoliday(dash(day)))}, []string{want})
				cmp("GetHolidayByYmd", day, []string{holStr(HolidayUtil.GetHolidayByYmd(y, mo, dd))}, []string{want})
				cmp("GetHolidays", day, holList(HolidayUtil.GetHolidays(dash(day))), wantL)
				wantT := r5Filter(m, func(r hrec) bool { return r.target == day })
				if targets[day] || dd%5 == 0 {
					cmp("GetHolidaysByTargetYmd", day, holList(HolidayUtil.GetHolidaysByTargetYmd(y, mo, dd)), wantT)
					cmp("GetHolidaysByTarget", day, holList(HolidayUtil.GetHolidaysByTarget(dash(day))), wantT)
				}
			}
		}
	}
}

func clipList(a []string) []string {
	if len(a) > 12 {
		return append(append([]string{}, a[:12]...), fmt.Sprintf("… (%d)", len(a)))
	}
	return a
}

func atoi(s string) int { n := 0; fmt.Sscanf(s, "%d", &n); return n }

func runC14(w *W) {
	HolidayUtil.VerifReset()
	switch w.Shard.Kind {
	case "views":
		names, data := HolidayUtil.VerifState()
		m, _, sorted := r5Parse(names, data)
		if !sorted {
			w.Viol("C14:pristine-table-unsorted", "the pristine table is not in date order", nil)
		}
		c14Views(w, "pristine table", "C14", "", nil)
		w.R.Transitions += int64(len(m))
		w.Sample(map[string]interface{}{"records": len(m), "first": data[:18], "last": data[len(data)-18:]})
	case "walk":
		c14Walk(w)
	case "fix":
		c14Fix(w)
	case "fixpath":
		c14FixPath(w)
	}
}

func c14Walk(w *W) {
	names, data := HolidayUtil.VerifState()
	m, order, _ := r5Parse(names, data)
	y0 := 2001
	y1 := atoi(order[len(order)-1][:4]) + 1
	part := atoi(w.Shard.Arg)
	works := func(j int) bool {
		y, mo, d := r1FromJDN(j)
		if r, ok := m[fmt.Sprintf("%04d%02d%02d", y, mo, d)]; ok {
			return r.work
		}
		wd := r1Weekday(j)
		return wd != 0 && wd != 6
	}
	steps := []int{0}
	for n := 1; n <= 10; n++ {
		steps = append(steps, n, -n)
	}
	steps = append(steps, 15, -15, 30, -30)
	// the days visited: every day of the table's span, plus whole years outside it (no records there: a day works iff it
	// is Monday-Friday in the calendar in force) - Julian-era years in which the Julian and the proleptic Gregorian
	// weekday differ, both sides of the 1582 switch, century years, years whose lunar New Year falls on 19/20 February,
	// the ends of the range; and, for the pay rate only, every day of 1900..2100
	var days []int
	rateOnly := map[int]bool{}
	for j := r1JDN(y0, 1, 1); j <= r1JDN(y1, 12, 31); j++ {
		days = append(days, j)
	}
	for _, ey := range []int{2, 100, 500, 800, 1001, 1400, 1500, 1581, 1582, 1583, 1700, 1900, 1985, 1996, 2000, 2034, 2053, 2100, 4000, 9997} {
		for j := r1JDN(ey, 1, 1); j <= r1JDN(ey, 12, 31); j++ {
			days = append(days, j)
		}
	}
	for j := r1JDN(1900, 1, 1); j <= r1JDN(2100, 12, 31); j++ {
		if y, _, _ := r1FromJDN(j); (y < y0 || y > y1) && y != 1900 && y != 1985 && y != 1996 && y != 2000 && y != 2034 && y != 2053 && y != 2100 {
			days = append(days, j)
			rateOnly[j] = true
		}
	}
	for _, j := range days {
		if j%4 != part {
			continue
		}
		y, mo, d := r1FromJDN(j)
		ymd := fmt.Sprintf("%04d-%02d-%02d", y, mo, d)
		s := calendar.NewSolar(y, mo, d, 8, 30, 0)
		w.R.States++
		near := false
		for k := -10; k <= 10; k++ {
			yy, mm, dd := r1FromJDN(j + k)
			if _, ok := m[fmt.Sprintf("%04d%02d%02d", yy, mm, dd)]; ok {
				near = true
			}
		}
		if near {
			w.R.Nontrivial++
		}
		for _, n := range steps {
			if rateOnly[j] {
				break
			}
			// reference walk
			tj := j
			rest := n
			if rest < 0 {
				rest = -rest
			}
			for rest > 0 {
				if n > 0 {
					tj++
				} else {
					tj--
				}
				if works(tj) {
					rest--
				}
			}
			var got *calendar.Solar
			if msg, p := try(func() { got = s.Next(n, true) }); p {
				w.Viol(fmt.Sprintf("C14:Next(%d,true):panic:%s", n, ymd), msg, ymd)
				continue
			}
			w.R.Transitions++
			w.R.Traces++
			ty, tm, td := r1FromJDN(tj)
			if !solarEq(got, ty, tm, td, 8, 30, 0) {
				w.Viol(fmt.Sprintf("C14:Next(%d,true):%s", n, ymd), fmt.Sprintf("%s.Next(%d,true) = %s, reference walk of %d working days lands on %04d-%02d-%02d", ymd, n, got.ToYmd(), n, ty, tm, td), ymd)
			}
			if n != 0 && !works(tj) {
				panic("reference walk ended on a non-working day")
			}
		}
		// pay rate
		l := s.GetLunar()
		lm, ld := l.GetMonth(), l.GetDay()
		want := 1
		switch {
		case (mo == 1 && d == 1) || (mo == 5 && d == 1) || (mo == 10 && d >= 1 && d <= 3) || (lm == 1 && ld >= 1 && ld <= 3) || (lm == 5 && ld == 5) || (lm == 8 && ld == 15) || l.GetJieQi() == "清明":
			want = 3
		case !works(j):
			want = 2
		}
		w.R.Evals++
		if got := s.GetSalaryRate(); got != want {
			w.Viol("C14:GetSalaryRate:"+ymd, fmt.Sprintf("%s (%s): pay rate %d, reference %d", ymd, lunarYmd(l), got, want), ymd)
		}
		if want == 3 && mo == 10 {
			w.Sample(map[string]interface{}{"day": ymd, "rate": want, "next_5_workdays": s.Next(5, true).ToYmd()})
		}
	}
}

type fixOp struct {
	name  string
	names []string
	data  string
}

func c14FixOps() []fixOp {
	// twelve names (the only table the histories install, so that it never shrinks under existing records): records may
	// then carry the name indices 9, 10 and 11, the last two encoded with the characters after '9'
	ext12 := append(append([]string{}, HolidayUtil.NAMES...), "测试节", "第十一节", "第十二节")
	// additions placed relative to the table's own first and last records (read from the pristine table): the day
	// before / two days before the last record (between its target and its day when it is a make-up day), the day after
	// it, and the day before the first record
	var edge []fixOp
	if _, data := HolidayUtil.VerifState(); len(data) >= 36 {
		seg := func(rec string, delta int) string {
			y, m, d := atoi(rec[0:4]), atoi(rec[4:6]), atoi(rec[6:8])
			ny, nm, nd := r1FromJDN(r1JDN(y, m, d) + delta)
			day := fmt.Sprintf("%04d%02d%02d", ny, nm, nd)
			if strings.Contains(data, day+rec[8:9]) || strings.Index(data, day) >= 0 && strings.Index(data, day)%18 == 0 {
				return ""
			}
			return day + rec[8:9] + "1" + rec[10:18]
		}
		last, first := data[len(data)-18:], data[:18]
		for _, c := range []struct {
			name  string
			rec   string
			delta int
		}{{"add-day-before-last-record", last, -1}, {"add-two-days-before-last-record", last, -2}, {"add-day-after-last-record", last, 1}, {"add-day-before-first-record", first, -1}, {"add-day-after-first-record", first, 1}} {
			if sg := seg(c.rec, c.delta); sg != "" {
				edge = append(edge, fixOp{c.name, nil, sg})
			}
		}
	}
	// records whose target digits run into the next record's day so that a year key also occurs across the record
	// boundary (…2022 0202|2022 0101…): lookups by year/month must still find the aligned records
	edge = append(edge,
		fixOp{"add-record-whose-target-runs-into-the-key-2022", nil, "202112311120220202"},
		fixOp{"add-record-whose-target-runs-into-the-key-2012", nil, "201112311120120201"},
		fixOp{"add-record-whose-target-runs-into-the-key-2020", nil, "201912311120200120"})
	return append(edge, []fixOp{
		{"add-records-with-11th-and-12th-name", ext12, "20311111:120311111" + "20311201;120311201"},
		{"replace-record-with-11th-name", ext12, "20311111;020311112"},
		{"remove-records-with-11th-and-12th-name", ext12, "20311111~000000000" + "20311201~000000000"},
		{"add-record-with-10th-name", ext12, "202105209120210520"},
		{"add-inside-existing-year", nil, "201003080120100308"},
		{"add-after-last-year", nil, "209901010120990101"},
		{"add-before-first-year", nil, "200001010120000101"},
		{"replace-work-flag", nil, "202001010020200101"},
		{"replace-name", nil, "202001011120200101"},
		{"replace-target", nil, "202001010120200125"},
		{"remove-existing", nil, "20200101~000000000"},
		{"remove-absent", nil, "20300101~000000000"},
		{"two-segments-add-and-remove", nil, "201006140120100614" + "20191001~000000000"},
		{"empty-string-nil-names", nil, ""},
		{"17-characters", nil, "20220101012022010"},
		{"add-inside-october-2014", nil, "201410090020141001"},
		{"remove-inside-target-run", nil, "20141005~000000000"},
		// days whose date also occurs earlier in the table as the *target* of preceding records (make-up days before the festival)
		{"replace-day-referenced-by-earlier-targets", nil, "200201010020020101"},
		{"remove-day-referenced-by-earlier-targets", nil, "20020101~000000000"},
		{"remove-day-referenced-by-two-earlier-targets", nil, "20060501~000000000"},
		{"replace-day-inside-interleaved-run", nil, "201410040120141001"},
		// make-up (working) records on statutory festival days: the pay rate stays 3
		{"make-up-record-on-mid-autumn-day", nil, "200709250020070925"},
		{"make-up-record-on-national-day-2", nil, "202010020020201001"},
		{"early-record-removed", nil, "20050101~000000000"},
	}...)
}

// c14CoreOps: the fix-ups that may stand in second and third position of the thorough tier's depth-3 histories.
var c14CoreOps = map[string]bool{
	"add-day-before-last-record": true, "add-day-after-last-record": true, "add-day-before-first-record": true,
	"add-record-whose-target-runs-into-the-key-2022": true,
	"add-records-with-11th-and-12th-name":            true, "remove-records-with-11th-and-12th-name": true,
	"add-inside-existing-year": true, "add-after-last-year": true, "add-before-first-year": true,
	"replace-work-flag": true, "replace-target": true, "remove-existing": true, "remove-absent": true,
	"two-segments-add-and-remove": true, "remove-inside-target-run": true,
	"replace-day-referenced-by-earlier-targets": true, "make-up-record-on-mid-autumn-day": true,
}

// c14Fix: one shard per first operation. Every path [first, j(, k)] is executed in its own fresh process
// (no harness reset between histories: a library that caches lookups and invalidates them inside Fix stays correct,
// one that forgets an invalidation is caught), results are merged here.
func c14Fix(w *W) {
	depth := 2
	if w.Thorough() {
		depth = 3
	}
	ops := c14FixOps()
	first := atoi(w.Shard.Arg)
	exe, _ := os.Executable()
	var paths [][]int
	// thorough: every history [first, j] over the full alphabet plus every history [first, j, k] with j, k in the core
	// alphabet (the full alphabet cubed is 40,000 processes — hours; the core keeps one fix-up per structural kind).
	// A history is observed after each of its fix-ups, so [first, j] with j in the core is covered by [first, j, k].
	core := map[int]bool{}
	for i, op := range ops {
		if c14CoreOps[op.name] {
			core[i] = true
		}
	}
	for j := range ops {
		if depth == 2 || !core[j] {
			paths = append(paths, []int{first, j})
			continue
		}
		for k := range ops {
			if core[k] {
				paths = append(paths, []int{first, j, k})
			}
		}
	}
	for _, pth := range paths {
		var parts []string
		for _, x := range pth {
			parts = append(parts, fmt.Sprint(x))
		}
		js, _ := json.Marshal(Shard{Kind: "fixpath", Arg: strings.Join(parts, ","), Tier: w.Shard.Tier, Seed: w.Shard.Seed})
		cmd := exec.Command(exe, "worker", "C14", string(js))
		cmd.Stderr = os.Stderr
		out, err := cmd.Output()
		var res Result
		ok := false
		for _, ln := range strings.Split(string(out), "\n") {
			if strings.HasPrefix(ln, "RESULT ") && json.Unmarshal([]byte(ln[7:]), &res) == nil {
				ok = true
			}
		}
		if err != nil || !ok {
			hn := histNames(ops, pth)
			w.Viol("C14:Fix:process-failed:"+strings.Join(hn, ">"), fmt.Sprintf("the process executing Fix history %v failed: %v %s", hn, err, tail(string(out), 200)), hn)
			continue
		}
		merge(&w.R, &res)
	}
	w.Count("fix_paths", int64(len(paths)))
	w.R.States += int64(len(w.R.Distinct["fix_states"]))
}

// c14FixPath runs in a fresh process: observe the pristine table (views, workday walk, pay rate around the affected
// days), then apply the path's fix-ups one by one, re-observing everything after each against the reference model.
func c14FixPath(w *W) {
	ops := c14FixOps()
	var path []int
	for _, x := range strings.Split(w.Shard.Arg, ",") {
		path = append(path, atoi(x))
	}
	// a name table shorter than the built-in one is only installed as the first fix-up of a history: after records with
	// higher name indices have been added, shrinking the table is caller misuse (lookups of those records cannot name them)
	for k, i := range path {
		if k > 0 && ops[i].names != nil && len(ops[i].names) < len(HolidayUtil.NAMES) {
			return
		}
	}
	names0, data0 := HolidayUtil.VerifState()
	// years touched by this path (+-1): day- and month-level views are compared there; by-year views on all years
	years := map[int]bool{}
	var days []string
	for _, i := range path {
		for dt := ops[i].data; len(dt) >= 18; dt = dt[18:] {
			days = append(days, dt[:8])
			for _, f := range []string{dt[:4], dt[10:14]} {
				if y := atoi(f); y > 1900 {
					years[y-1], years[y], years[y+1] = true, true, true
				}
			}
		}
	}
	observe := func(tag string, hn []string) {
		class := ""
		names, data := HolidayUtil.VerifState()
		m, _, sorted := r5Parse(names, data)
		if !sorted {
			class = "C14:Fix:new-record-appended-out-of-date-order"
		}
		c14Views(w, fmt.Sprintf("%s Fix history %v", tag, hn), "C14:Fix:view:"+strings.Join(hn, ">"), class, years)
		works := func(j int) bool {
			y, mo, d := r1FromJDN(j)
			if r, ok := m[fmt.Sprintf("%04d%02d%02d", y, mo, d)]; ok {
				return r.work
			}
			wd := r1Weekday(j)
			return wd != 0 && wd != 6
		}
		for _, ds := range days {
			y, mo, d := atoi(ds[:4]), atoi(ds[4:6]), atoi(ds[6:8])
			if !r1Valid(y, mo, d) {
				continue
			}
			j0 := r1JDN(y, mo, d)
			for off := -4; off <= 4; off++ {
				j := j0 + off
				sy, sm, sd := r1FromJDN(j)
				sol := calendar.NewSolarFromYmd(sy, sm, sd)
				for _, n := range []int{1, -1, 3, -3} {
					tj, rest := j, n
					if rest < 0 {
						rest = -rest
					}
					for rest > 0 {
						if n > 0 {
							tj++
						} else {
							tj--
						}
						if works(tj) {
							rest--
						}
					}
					var got *calendar.Solar
					if msg, p := try(func() { got = sol.Next(n, true) }); p {
						w.Viol("C14:Fix:walk:panic:"+strings.Join(hn, ">"), msg, hn)
						continue
					}
					w.R.Transitions++
					w.R.Traces++
					if got.ToYmd() != r1Ymd(tj) {
						w.Viol("C14:Fix:workday-walk:"+strings.Join(hn, ">"), fmt.Sprintf("%s Fix history %v: %s.Next(%d,true) = %s, the record set as it is now gives %s", tag, hn, r1Ymd(j), n, got.ToYmd(), r1Ymd(tj)), hn)
					}
				}
				// pay rate
				l := sol.GetLunar()
				lm, ld := l.GetMonth(), l.GetDay()
				want := 1
				switch {
				case (sm == 1 && sd == 1) || (sm == 5 && sd == 1) || (sm == 10 && sd >= 1 && sd <= 3) || (lm == 1 && ld >= 1 && ld <= 3) || (lm == 5 && ld == 5) || (lm == 8 && ld == 15) || l.GetJieQi() == "清明":
					want = 3
				case !works(j):
					want = 2
				}
				w.R.Evals++
				if got := sol.GetSalaryRate(); got != want {
					w.Viol("C14:Fix:GetSalaryRate:"+strings.Join(hn, ">"), fmt.Sprintf("%s Fix history %v: pay rate of %s = %d, reference %d", tag, hn, r1Ymd(j), got, want), hn)
				}
			}
		}
	}
	observe("before", nil)
	ref, _, _ := r5Parse(names0, data0)
	names := names0
	for step, i := range path {
		hn := histNames(ops, path[:step+1])
		if msg, p := try(func() { HolidayUtil.Fix(ops[i].names, ops[i].data) }); p {
			w.Viol("C14:Fix:panic:"+ops[i].name, fmt.Sprintf("Fix history %v panicked: %s", hn, msg), hn)
			return
		}
		w.R.Transitions++
		w.R.Nontrivial++
		// reference model: insert / overwrite / delete
		if ops[i].names != nil {
			names = ops[i].names
		}
		for dt := ops[i].data; len(dt) >= 18; dt = dt[18:] {
			seg := dt[:18]
			if seg[8] == '~' {
				delete(ref, seg[:8])
				continue
			}
			idx := int(seg[8] - '0')
			nm := "?"
			if idx >= 0 && idx < len(names) {
				nm = names[idx]
			}
			ref[seg[:8]] = hrec{seg[:8], nm, seg[9] == '0', seg[10:18]}
		}
		ln, ld := HolidayUtil.VerifState()
		live, _, _ := r5Parse(ln, ld)
		var diffs []string
		for d, r := range ref {
			if lr, ok := live[d]; !ok {
				diffs = append(diffs, "missing "+r.String())
			} else if lr.work != r.work || lr.target != r.target || lr.name != r.name {
				diffs = append(diffs, "differs "+lr.String()+" vs "+r.String())
			}
		}
		for d, r := range live {
			if _, ok := ref[d]; !ok {
				diffs = append(diffs, "extra "+r.String())
			}
		}
		sort.Strings(diffs)
		if len(diffs) > 0 || len(ld)%18 != 0 {
			w.Viol("C14:Fix:records:"+strings.Join(hn, ">"), fmt.Sprintf("after Fix history %v the table differs from insert/overwrite/delete semantics: %v", hn, clipList(diffs)), hn)
		}
		observe("after", hn)
		w.DistinctAdd("fix_states", hashStr(strings.Join(ln, "|")+"#"+ld))
	}
	if len(path) > 0 && path[0] == 0 && path[len(path)-1] == 6 {
		w.Sample(map[string]interface{}{"fix_history": histNames(ops, path), "executed_in": "its own process", "observed": "views, workday walk and pay rate before and after every fix-up"})
	}
}

func histNames(ops []fixOp, h []int) []string {
	var out []string
	for _, i := range h {
		out = append(out, ops[i].name)
	}
	return out
}

var pristine string

func pristineData() string {
	if pristine == "" {
		HolidayUtil.VerifReset()
		_, pristine = HolidayUtil.VerifState()
	}
	return pristine
}
