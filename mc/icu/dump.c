/* Dumps ICU's Chinese-calendar month starts for Gregorian years 1899..2101:
 * "YYYY-MM-DD lunarYear month isLeap" (lunar year = extended year - 2637). */
#include <stdio.h>
#include <unicode/ucal.h>
#include <unicode/ustring.h>
int main(void) {
  UErrorCode st = U_ZERO_ERROR;
  UChar tz[32];
  u_uastrcpy(tz, "Asia/Shanghai");
  UCalendar *cc = ucal_open(tz, -1, "zh_CN@calendar=chinese", UCAL_TRADITIONAL, &st);
  UCalendar *gc = ucal_open(tz, -1, "zh_CN@calendar=gregorian", UCAL_GREGORIAN, &st);
  if (U_FAILURE(st)) { fprintf(stderr, "ucal_open: %s\n", u_errorName(st)); return 1; }
  ucal_clear(gc);
  ucal_setDateTime(gc, 1899, 0, 1, 12, 0, 0, &st);
  UDate t = ucal_getMillis(gc, &st);
  int prevM = -1, prevL = -1;
  for (int i = 0; i < 203 * 366; i++) {
    ucal_setMillis(cc, t, &st);
    ucal_setMillis(gc, t, &st);
    int dom = ucal_get(cc, UCAL_DAY_OF_MONTH, &st);
    int m = ucal_get(cc, UCAL_MONTH, &st) + 1;
    int leap = ucal_get(cc, UCAL_IS_LEAP_MONTH, &st);
    int ey = ucal_get(cc, UCAL_EXTENDED_YEAR, &st);
    if (dom == 1 && (m != prevM || leap != prevL)) {
      printf("%04d-%02d-%02d %d %d %d\n", ucal_get(gc, UCAL_YEAR, &st), ucal_get(gc, UCAL_MONTH, &st) + 1, ucal_get(gc, UCAL_DAY_OF_MONTH, &st), ey - 2637, m, leap);
      prevM = m; prevL = leap;
    }
    if (dom != 1) { prevM = -1; }
    t += 86400000.0;
    if (ucal_get(gc, UCAL_YEAR, &st) > 2101) break;
  }
  ucal_close(cc); ucal_close(gc);
  return U_FAILURE(st) ? 1 : 0;
}
