package main

// C02 — months start on the new-moon day; leap months follow the no-major-term rule; agreement
// with an independent computation (R3) and with ICU. Engine E1 over year tables.

import (
	"bufio"
	"fmt"
	"math"
	"os"
	"path/filepath"
	"strings"

	"github.com/6tail/lunar-go/ShouXingUtil"
	"github.com/6tail/lunar-go/calendar"
)

func init() {
	register(&Check{
		ID:     "C02",
		Rule:   "every lunar month of every year table 1645..3000 (each lunation seen in up to two tables): (a) first day = UTC+8 civil day of R3's new moon, undecided when R3's instant is within the era margin of midnight (25 min 1645-1928, 5 min + delta-T spread from 1929); (b1) for every lunar year 1929..3000 the leap rule evaluated on the library's own term days and month starts reproduces numbering and leap placement (no margin); (b2) the same rule evaluated on R3's new-moon and major-term days (year undecided when an R3 event lies within its margin of midnight) equals GetLeapMonth / month numbers / first days, and Solar.GetLunar on every first day; (c) ICU's Chinese calendar 1900..2100 month by month, a disagreement tolerated only when R3 puts the responsible event within 30 min of midnight. non-trivial = leap years, months whose new moon is within 2 h of midnight, years with 13 lunations between solstice months",
		Assume: []string{"R3 = Meeus ch.49/25 + Espenak-Meeus delta-T (self-tested at start-up: new moons to ~1 min, sun to ~15 min)", "era margins fixed from first principles (Beijing local mean time UTC+7:45:40 before 1929 + period ephemeris error), not from the library's output", "ICU leg depends on the system ICU library; skipped with a note when the dump is unavailable"},
		Shards: func(tier string, seed int64) []Shard {
			sh := splitRanges([][2]int{{1645, 3000}}, 16, Shard{Kind: "astro", Tier: tier, Seed: seed})
			sh = append(sh, Shard{Kind: "icu", Tier: tier, Seed: seed})
			return sh
		},
		Run:           runC02,
		MinNontrivial: 50,
	})
}

func dtLibSeconds(jdUT float64) float64 { return ShouXingUtil.VerifDtT(jdUT-2451545.0) * 86400 }

// r3NewMoonDay: UTC+8 civil day (JDN) of the R3 new moon nearest to noon of day jdn; minutes from the nearest UTC+8 midnight; spread of delta-T models (s)
func r3NewMoonDay(jdn int) (day int, minFromMidnight float64, spread float64) {
	ut := r3NewMoonNearUT(float64(jdn) - 8.0/24)
	local := ut + 8.0/24 // UTC+8 as a Julian Day
	day = int(math.Floor(local + 0.5))
	frac := local + 0.5 - math.Floor(local+0.5) // fraction of the civil day elapsed
	m := frac * 1440
	if m > 720 {
		m = 1440 - m
	}
	spread = math.Abs(dtLibSeconds(ut) - deltaTEM(decimalYearOfJD(ut)))
	return day, m, spread
}

// r3TermDay: UTC+8 civil day of the instant the sun reaches lon (deg) nearest to the guess (UT JD); minutes from midnight
func r3TermDay(lon float64, guessUT float64) (day int, minFromMidnight float64, spread float64) {
	ut := guessUT
	for k := 0; k < 6; k++ {
		tt := ut + deltaTEM(decimalYearOfJD(ut))/86400
		d := angDiffDeg(lon, r3SunLon(tt))
		ut += d / (360.0 / 365.2422)
	}
	local := ut + 8.0/24
	day = int(math.Floor(local + 0.5))
	frac := local + 0.5 - math.Floor(local+0.5)
	m := frac * 1440
	if m > 720 {
		m = 1440 - m
	}
	spread = math.Abs(dtLibSeconds(ut) - deltaTEM(decimalYearOfJD(ut)))
	return day, m, spread
}

type suiMonth struct {
	first int // JDN
	y, m  int // label from the library
}

// leapRule: months = first days of consecutive months starting with the month containing solstice(y-1)
// up to and including the month containing solstice(y); zhongqi = major-term days. Returns the labels
// (month number, negative = leap) for all months before the last one.
func leapRule(firsts []int, zhongqi []int) []int {
	n := len(firsts) - 1 // months in the sui (excluding the next solstice month)
	labels := make([]int, n)
	leapAt := -1
	if n == 13 {
		for i := 1; i < n; i++ {
			has := false
			for _, z := range zhongqi {
				if z >= firsts[i] && z < firsts[i+1] {
					has = true
				}
			}
			if !has {
				leapAt = i
				break
			}
		}
	}
	num := 11
	for i := 0; i < n; i++ {
		if i == leapAt {
			prev := num - 1
			if prev < 1 {
				prev += 12
			}
			labels[i] = -prev
			continue
		}
		labels[i] = num
		num++
		if num > 12 {
			num = 1
		}
	}
	return labels
}

func runC02(w *W) {
	if bad := r3SelfTest(); len(bad) > 0 {
		panic("R3 self-test failed: " + fmt.Sprint(bad))
	}
	if w.Shard.Kind == "icu" {
		c02ICU(w)
		return
	}
	for _, r := range w.Shard.Ranges {
		for y := r[0]; y <= r[1]; y++ {
			c02Year(w, y)
		}
	}
}

func c02Year(w *W, y int) {
	tab := snapshotYear(y)
	w.R.States++
	// (0) the by-number entry point returns exactly the table's month (same year, number, new-moon day, length), and no
	// leap month that the table does not have; asked year after year, so that the key spaces of neighbouring years meet
	hasLeap := map[int]bool{}
	for _, m := range tab {
		if m.Y != y {
			continue
		}
		if m.M < 0 {
			hasLeap[-m.M] = true
		}
		var lm *calendar.LunarMonth
		if msg, p := try(func() { lm = calendar.NewLunarMonthFromYm(m.Y, m.M) }); p {
			w.Viol(fmt.Sprintf("C02:NewLunarMonthFromYm:panic:%s", m.key()), msg, m.key())
		} else if lm == nil || lm.GetYear() != m.Y || lm.GetMonth() != m.M || lm.GetFirstJulianDay() != m.First || lm.GetDayCount() != m.Days || lm.IsLeap() != (m.M < 0) {
			got := "nil"
			if lm != nil {
				got = fmt.Sprintf("%d/%d first %.1f, %d days, leap=%v", lm.GetYear(), lm.GetMonth(), lm.GetFirstJulianDay(), lm.GetDayCount(), lm.IsLeap())
			}
			w.Viol(fmt.Sprintf("C02:NewLunarMonthFromYm:%s", m.key()), fmt.Sprintf("NewLunarMonthFromYm(%d,%d) = %s; the year's table has %s first %.1f, %d days", m.Y, m.M, got, m.key(), m.First, m.Days), m.key())
		}
		w.R.Evals++
	}
	for k := 1; k <= 12; k++ {
		if hasLeap[k] {
			continue
		}
		var lm *calendar.LunarMonth
		if _, p := try(func() { lm = calendar.NewLunarMonthFromYm(y, -k) }); !p && lm != nil {
			w.Viol(fmt.Sprintf("C02:NewLunarMonthFromYm:phantom-leap:%d/-%d", y, k), fmt.Sprintf("NewLunarMonthFromYm(%d,-%d) returns %d/%d although lunar year %d has no leap month %d", y, k, lm.GetYear(), lm.GetMonth(), y, k), y)
		}
	}
	// (a) new-moon day of every month in the table
	for _, m := range tab {
		jdn := int(m.First)
		if float64(jdn) != m.First {
			w.Viol(fmt.Sprintf("C02:first-day-not-integral:%s", m.key()), fmt.Sprintf("month %s first Julian day %.3f", m.key(), m.First), y)
			continue
		}
		cy, _, _ := r1FromJDN(jdn)
		if cy < 1645 || cy > 3000 {
			continue
		}
		w.R.Evals++
		w.R.Transitions++
		day, mins, spread := r3NewMoonDay(jdn)
		margin := 25.0
		if cy >= 1929 {
			margin = 5 + spread/60
		}
		if mins < 120 {
			w.R.Nontrivial++
		}
		if day != jdn {
			if mins <= margin {
				w.R.Undecided++
				w.Count("undecided_new_moon_days", 1)
				w.DistinctAdd("undecided_lunations", r1Ymd(jdn))
				continue
			}
			w.Viol(fmt.Sprintf("C02:new-moon-day:%s", m.key()), fmt.Sprintf("month %s (table %d) starts on %s but the independent new moon falls on UTC+8 day %s, %.0f min from midnight (margin %.1f)", m.key(), y, r1Ymd(jdn), r1Ymd(day), mins, margin), m.key())
		} else {
			w.R.Traces++
		}
		// Solar.GetLunar on the first day and the day before
		ly, lm, ld := r1FromJDN(jdn)
		l := calendar.NewSolarFromYmd(ly, lm, ld).GetLunar()
		if l.GetYear() != m.Y || l.GetMonth() != m.M || l.GetDay() != 1 {
			// a month can be labelled differently by the table of another year only inside the reform windows; report otherwise
			w.Viol(fmt.Sprintf("C02:GetLunar-first-day:%s", m.key()), fmt.Sprintf("table %d says %s starts on %s but Solar.GetLunar there is %s", y, m.key(), r1Ymd(jdn), lunarYmd(l)), m.key())
		}
		// the same first day reached by stepping on the lunar side: from the day before (the last day of the previous
		// month) one day forward, from mid-month back, and from the previous month's first day across its whole length
		for _, back := range []int{1, -14, 29} {
			if jdn-back < jdnFirst {
				continue
			}
			by, bm, bd := r1FromJDN(jdn - back)
			var l2 *calendar.Lunar
			w.R.Transitions++
			if msg, p := try(func() { l2 = calendar.NewSolarFromYmd(by, bm, bd).GetLunar().Next(back) }); p {
				w.Viol(fmt.Sprintf("C02:Next-onto-first-day:panic:%s", m.key()), fmt.Sprintf("stepping %d days from %s onto the first day of %s panics: %s", back, r1Ymd(jdn-back), m.key(), msg), m.key())
			} else if l2 == nil {
				w.Viol(fmt.Sprintf("C02:Next-onto-first-day:nil:%s", m.key()), fmt.Sprintf("stepping %d days from %s returns nil", back, r1Ymd(jdn-back)), m.key())
			} else if l2.GetYear() != l.GetYear() || l2.GetMonth() != l.GetMonth() || l2.GetDay() != l.GetDay() || l2.GetSolar().ToYmd() != r1Ymd(jdn) {
				w.Viol(fmt.Sprintf("C02:Next-onto-first-day:%s", m.key()), fmt.Sprintf("table %d says %s starts on %s; the lunar date of %s stepped by %d days is %s on %s", y, m.key(), r1Ymd(jdn), r1Ymd(jdn-back), back, lunarYmd(l2), l2.GetSolar().ToYmd()), m.key())
			}
		}
	}
	if y < 1929 {
		return
	}
	// ---- leap rule for lunar year y (the sui from solstice(y-1) to solstice(y))
	terms := termsOf(calendar.NewSolarFromYmd(y, 6, 1).GetLunar())
	solPrev, solCur := terms[1].J, terms[25].J
	var zq []int
	for _, t := range terms {
		if t.Idx%2 == 1 {
			zq = append(zq, t.J)
		}
	}
	// month list: table y covers months from the 11th month of y-1
	idxOf := func(day int) int {
		for i := range tab {
			if day >= int(tab[i].First) && day < int(tab[i].First)+tab[i].Days {
				return i
			}
		}
		return -1
	}
	a, b := idxOf(solPrev), idxOf(solCur)
	if a < 0 || b < 0 || b <= a {
		w.Viol(fmt.Sprintf("C02:solstice-months:%d", y), fmt.Sprintf("cannot locate the solstice months of %d in its table (indices %d, %d)", y, a, b), y)
		return
	}
	var firsts []int
	for i := a; i <= b; i++ {
		firsts = append(firsts, int(tab[i].First))
	}
	labels := leapRule(firsts, zq)
	if len(labels) == 13 {
		w.R.Nontrivial++
	}
	w.R.Evals++
	for i, lab := range labels {
		m := tab[a+i]
		if m.M != lab {
			w.Viol(fmt.Sprintf("C02:leap-rule-own-data:%d", y), fmt.Sprintf("lunar year %d: the month starting %s is labelled %d, the no-major-term rule on the library's own term days gives %d (months between solstice months: %d)", y, r1Ymd(int(m.First)), m.M, lab, len(labels)), y)
			break
		}
	}
	if tab[a].M != 11 || tab[b].M != 11 {
		w.Viol(fmt.Sprintf("C02:solstice-month-not-11:%d", y), fmt.Sprintf("the months containing the winter solstices of %d and %d are labelled %d and %d", y-1, y, tab[a].M, tab[b].M), y)
	}
	// accessor consistency for the leap month of lunar year y (months labelled with year y)
	ly := calendar.NewLunarYear(y)
	wantLeap, cnt := 0, 0
	for _, m := range tab {
		if m.Y == y {
			cnt++
			if m.M < 0 {
				wantLeap = -m.M
			}
		}
	}
	if ly.GetLeapMonth() != wantLeap || ly.GetMonthsInYear().Len() != cnt {
		w.Viol(fmt.Sprintf("C02:accessors:%d", y), "GetLeapMonth/GetMonthsInYear disagree with the table", y)
	}
	// ---- (b2) same rule on R3 data
	undecided := false
	var r3Firsts []int
	for _, f := range firsts {
		day, mins, spread := r3NewMoonDay(f)
		if mins <= 5+spread/60 {
			undecided = true
		}
		r3Firsts = append(r3Firsts, day)
	}
	// R3 major terms of the sui: longitudes 270 (solstice y-1), 300, ..., 240, then 270 again
	var r3zq []int
	for k := 0; k <= 12; k++ {
		lon := math.Mod(270+30*float64(k), 360)
		guess := float64(terms[1+2*k].J) - 8.0/24
		day, mins, spread := r3TermDay(lon, guess)
		r3zq = append(r3zq, day)
		if mins <= 20+spread/60 {
			// matters only if that midnight is a month boundary
			for _, f := range r3Firsts {
				if day == f || day+1 == f || day-1 == f {
					undecided = true
				}
			}
		}
	}
	if undecided {
		w.R.Undecided++
		w.Count("undecided_years_independent_leap", 1)
		return
	}
	// the R3 solstice months must be the first and last of the list
	in := func(day, i int) bool { return i+1 < len(r3Firsts) && day >= r3Firsts[i] && day < r3Firsts[i+1] }
	okSol := in(r3zq[0], 0) && r3zq[12] >= r3Firsts[len(r3Firsts)-1]
	r3labels := leapRule(r3Firsts, r3zq)
	same := okSol && len(r3labels) == len(labels)
	for i := range labels {
		if !same {
			break
		}
		if r3labels[i] != labels[i] || r3Firsts[i] != firsts[i] {
			same = false
		}
	}
	w.R.Traces++
	if !same {
		w.Viol(fmt.Sprintf("C02:independent-leap:%d", y), fmt.Sprintf("lunar year %d: month table from the independent computation (first days %v labels %v) differs from the library's (first days %v labels %v)", y, ymds(r3Firsts), r3labels, ymds(firsts), labels), y)
	}
	if y%100 == 33 {
		w.Sample(map[string]interface{}{"lunar_year": y, "months_between_solstice_months": len(labels), "labels": labels, "first_days": ymds(firsts)})
	}
}

func ymds(js []int) []string {
	var o []string
	for _, j := range js {
		o = append(o, r1Ymd(j))
	}
	return o
}

// ---- (c) ICU leg: /verif/.build/icu_months.txt lines "gregorian-ymd extended-year month isLeap"
func c02ICU(w *W) {
	exe, _ := os.Executable()
	p := filepath.Join(filepath.Dir(exe), "icu_months.txt")
	f, err := os.Open(p)
	if err != nil {
		p = "/verif/.build/icu_months.txt"
		f, err = os.Open(p)
	}
	if err != nil {
		w.R.Notes = append(w.R.Notes, "ICU leg skipped: no ICU dump ("+err.Error()+")")
		w.R.States++
		return
	}
	defer f.Close()
	sc := bufio.NewScanner(f)
	n := 0
	for sc.Scan() {
		var gy, gm, gd, ly, lm, leap int
		if k, _ := fmt.Sscanf(strings.TrimSpace(sc.Text()), "%d-%d-%d %d %d %d", &gy, &gm, &gd, &ly, &lm, &leap); k != 6 {
			continue
		}
		if gy < 1900 || gy > 2100 {
			continue
		}
		n++
		w.R.States++
		w.R.Evals++
		w.R.Transitions++
		sm := lm
		if leap == 1 {
			sm = -lm
		}
		l := calendar.NewSolarFromYmd(gy, gm, gd).GetLunar()
		if l.GetYear() == ly && l.GetMonth() == sm && l.GetDay() == 1 {
			w.R.Traces++
			continue
		}
		// disagreement: tolerated only when R3 places the responsible event within 30 min of midnight
		jdn := r1JDN(gy, gm, gd)
		_, mins, _ := r3NewMoonDay(jdn)
		tol := 30.0
		if gy < 1929 {
			tol = 30 + 14.5 // ICU uses Beijing local mean time before 1929
		}
		reason := ""
		if l.GetDay() != 1 {
			// day shift: the new moon near this day (or the next/previous one)
			best := mins
			for _, dj := range []int{-1, 1} {
				if _, m2, _ := r3NewMoonDay(jdn + dj); m2 < best {
					best = m2
				}
			}
			if best <= tol {
				reason = fmt.Sprintf("new moon %.0f min from midnight", best)
			}
		} else {
			// relabelling: some major term of the surrounding year within tol of a midnight
			terms := termsOf(l)
			for _, t := range terms {
				if t.Idx%2 == 1 {
					lon := math.Mod(255+15*float64(t.Idx), 360)
					_, m2, _ := r3TermDay(lon, float64(t.J)-8.0/24)
					if m2 <= tol {
						reason = fmt.Sprintf("major term %s %.0f min from midnight", termName(t.Key), m2)
					}
				}
			}
			if reason == "" {
				// a month-start shift elsewhere in the year also relabels: look for a near-midnight new moon within +-13 lunations
				for k := -13; k <= 13; k++ {
					if _, m2, _ := r3NewMoonDay(jdn + int(math.Round(float64(k)*29.53))); m2 <= tol {
						reason = fmt.Sprintf("a new moon of the same year %.0f min from midnight", m2)
					}
				}
			}
		}
		if reason != "" {
			w.R.Undecided++
			w.DistinctAdd("icu_tolerated", fmt.Sprintf("%04d-%02d-%02d", gy, gm, gd))
			continue
		}
		w.Viol(fmt.Sprintf("C02:icu:%04d-%02d-%02d", gy, gm, gd), fmt.Sprintf("ICU starts lunar month %d/%d on %04d-%02d-%02d, the library has %s there, and no event lies within %.0f min of midnight", ly, sm, gy, gm, gd, lunarYmd(l), tol), nil)
	}
	w.Count("icu_month_starts", int64(n))
	if n == 0 {
		w.R.Notes = append(w.R.Notes, "ICU leg skipped: dump is empty")
		w.R.States++
	} else {
		w.Sample(map[string]interface{}{"icu_month_starts_compared": n})
	}
}
