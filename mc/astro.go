package main

// R3 — independent low-precision ephemeris written from the published formulas (Meeus,
// Astronomical Algorithms 2nd ed., ch. 25 and 49; Espenak & Meeus delta-T polynomials).
// Never tuned against the library. Validated by r3SelfTest against published instants.

import (
	"fmt"
	"math"
)

func deg2rad(d float64) float64 { return d * math.Pi / 180 }
func norm360(d float64) float64 {
	d = math.Mod(d, 360)
	if d < 0 {
		d += 360
	}
	return d
}

// deltaT_EM: Espenak–Meeus polynomial expressions for delta-T in seconds, y = decimal year.
func deltaTEM(y float64) float64 {
	switch {
	case y < -500:
		u := (y - 1820) / 100
		return -20 + 32*u*u
	case y < 500:
		u := y / 100
		return 10583.6 - 1014.41*u + 33.78311*u*u - 5.952053*u*u*u - 0.1798452*math.Pow(u, 4) + 0.022174192*math.Pow(u, 5) + 0.0090316521*math.Pow(u, 6)
	case y < 1600:
		u := (y - 1000) / 100
		return 1574.2 - 556.01*u + 71.23472*u*u + 0.319781*u*u*u - 0.8503463*math.Pow(u, 4) - 0.005050998*math.Pow(u, 5) + 0.0083572073*math.Pow(u, 6)
	case y < 1700:
		t := y - 1600
		return 120 - 0.9808*t - 0.01532*t*t + t*t*t/7129
	case y < 1800:
		t := y - 1700
		return 8.83 + 0.1603*t - 0.0059285*t*t + 0.00013336*t*t*t - math.Pow(t, 4)/1174000
	case y < 1860:
		t := y - 1800
		return 13.72 - 0.332447*t + 0.0068612*t*t + 0.0041116*t*t*t - 0.00037436*math.Pow(t, 4) + 0.0000121272*math.Pow(t, 5) - 0.0000001699*math.Pow(t, 6) + 0.000000000875*math.Pow(t, 7)
	case y < 1900:
		t := y - 1860
		return 7.62 + 0.5737*t - 0.251754*t*t + 0.01680668*t*t*t - 0.0004473624*math.Pow(t, 4) + math.Pow(t, 5)/233174
	case y < 1920:
		t := y - 1900
		return -2.79 + 1.494119*t - 0.0598939*t*t + 0.0061966*t*t*t - 0.000197*math.Pow(t, 4)
	case y < 1941:
		t := y - 1920
		return 21.20 + 0.84493*t - 0.076100*t*t + 0.0020936*t*t*t
	case y < 1961:
		t := y - 1950
		return 29.07 + 0.407*t - t*t/233 + t*t*t/2547
	case y < 1986:
		t := y - 1975
		return 45.45 + 1.067*t - t*t/260 - t*t*t/718
	case y < 2005:
		t := y - 2000
		return 63.86 + 0.3345*t - 0.060374*t*t + 0.0017275*t*t*t + 0.000651814*math.Pow(t, 4) + 0.00002373599*math.Pow(t, 5)
	case y < 2050:
		t := y - 2000
		return 62.92 + 0.32217*t + 0.005589*t*t
	case y < 2150:
		u := (y - 1820) / 100
		return -20 + 32*u*u - 0.5628*(2150-y)
	default:
		u := (y - 1820) / 100
		return -20 + 32*u*u
	}
}

func decimalYearOfJD(jd float64) float64 { return 2000 + (jd-2451545.0)/365.2425 }

// r3SunLon: apparent geocentric longitude of the sun in degrees at JDE (TT), Meeus ch. 25 (0.01 deg).
func r3SunLon(jde float64) float64 {
	T := (jde - 2451545.0) / 36525
	L0 := 280.46646 + 36000.76983*T + 0.0003032*T*T
	M := deg2rad(357.52911 + 35999.05029*T - 0.0001537*T*T)
	C := (1.914602-0.004817*T-0.000014*T*T)*math.Sin(M) + (0.019993-0.000101*T)*math.Sin(2*M) + 0.000289*math.Sin(3*M)
	om := deg2rad(125.04 - 1934.136*T)
	return norm360(L0 + C - 0.00569 - 0.00478*math.Sin(om))
}

// r3NewMoon: JDE (TT) of the new moon number k (k = 0 is the new moon of 2000-01-06), Meeus ch. 49.
func r3NewMoon(k float64) float64 {
	T := k / 1236.85
	T2, T3, T4 := T*T, T*T*T, T*T*T*T
	jde := 2451550.09766 + 29.530588861*k + 0.00015437*T2 - 0.000000150*T3 + 0.00000000073*T4
	E := 1 - 0.002516*T - 0.0000074*T2
	M := deg2rad(2.5534 + 29.10535670*k - 0.0000014*T2 - 0.00000011*T3)
	Mp := deg2rad(201.5643 + 385.81693528*k + 0.0107582*T2 + 0.00001238*T3 - 0.000000058*T4)
	F := deg2rad(160.7108 + 390.67050284*k - 0.0016118*T2 - 0.00000227*T3 + 0.000000011*T4)
	Om := deg2rad(124.7746 - 1.56375588*k + 0.0020672*T2 + 0.00000215*T3)
	s := math.Sin
	c := -0.40720*s(Mp) + 0.17241*E*s(M) + 0.01608*s(2*Mp) + 0.01039*s(2*F) + 0.00739*E*s(Mp-M) - 0.00514*E*s(Mp+M) + 0.00208*E*E*s(2*M) -
		0.00111*s(Mp-2*F) - 0.00057*s(Mp+2*F) + 0.00056*E*s(2*Mp+M) - 0.00042*s(3*Mp) + 0.00042*E*s(M+2*F) + 0.00038*E*s(M-2*F) -
		0.00024*E*s(2*Mp-M) - 0.00017*s(Om) - 0.00007*s(Mp+2*M) + 0.00004*s(2*Mp-2*F) + 0.00004*s(3*M) + 0.00003*s(Mp+M-2*F) +
		0.00003*s(2*Mp+2*F) - 0.00003*s(Mp+M+2*F) + 0.00003*s(Mp-M+2*F) - 0.00002*s(Mp-M-2*F) - 0.00002*s(3*Mp+M) + 0.00002*s(4*Mp)
	A := []float64{299.77 + 0.107408*k - 0.009173*T2, 251.88 + 0.016321*k, 251.83 + 26.651886*k, 349.42 + 36.412478*k, 84.66 + 18.206239*k, 141.74 + 53.303771*k, 207.14 + 2.453732*k,
		154.84 + 7.306860*k, 34.52 + 27.261239*k, 207.19 + 0.121824*k, 291.34 + 1.844379*k, 161.72 + 24.198154*k, 239.56 + 25.513099*k, 331.55 + 3.592518*k}
	coef := []float64{0.000325, 0.000165, 0.000164, 0.000126, 0.000110, 0.000062, 0.000060, 0.000056, 0.000047, 0.000042, 0.000040, 0.000037, 0.000035, 0.000023}
	for i := range A {
		c += coef[i] * s(deg2rad(A[i]))
	}
	return jde + c
}

// r3NewMoonNearUT: the UT Julian Day of the new moon nearest to the given UT Julian Day.
func r3NewMoonNearUT(jdUT float64) float64 {
	k := math.Round((jdUT - 2451550.09766) / 29.530588861)
	best := math.Inf(1)
	bestJD := 0.0
	for dk := -1.0; dk <= 1; dk++ {
		jde := r3NewMoon(k + dk)
		ut := jde - deltaTEM(decimalYearOfJD(jde))/86400
		if d := math.Abs(ut - jdUT); d < best {
			best, bestJD = d, ut
		}
	}
	return bestJD
}

// r3SelfTest validates R3 against published values; returns a list of failures.
func r3SelfTest() []string {
	var bad []string
	chk := func(name string, got, want, tol float64) {
		if math.Abs(got-want) > tol {
			bad = append(bad, fmt.Sprintf("%s: got %.6f want %.6f (tol %g)", name, got, want, tol))
		}
	}
	// Meeus example 49.a: new moon of mid-February 1977, k = -283: JDE 2443192.65118
	chk("Meeus 49.a new moon k=-283", r3NewMoon(-283), 2443192.65118, 0.0002)
	// new moon 2000-01-06 18:14 UT
	chk("new moon 2000-01-06 18:14 UT", r3NewMoonNearUT(2451550.26), 2451549.5+18.0/24+14.0/1440, 0.002)
	// new moon 2024-02-09 22:59 UT
	chk("new moon 2024-02-09 22:59 UT", r3NewMoonNearUT(2460350.4), float64(jdnGregorian(2024, 2, 9))-0.5+22.0/24+59.0/1440, 0.002)
	// new moon 1900-01-01 13:52 UT
	chk("new moon 1900-01-01 13:52 UT", r3NewMoonNearUT(float64(jdnGregorian(1900, 1, 1))), float64(jdnGregorian(1900, 1, 1))-0.5+13.0/24+52.0/1440, 0.003)
	// Meeus example 25.a: 1992 October 13.0 TD, apparent longitude 199 deg 54' 32" (low accuracy)
	chk("Meeus 25.a sun longitude", r3SunLon(2448908.5), 199.0+54.0/60+32.0/3600, 0.004)
	// March equinox 2000-03-20 07:35 UT: longitude 0 (mod 360)
	jd := float64(jdnGregorian(2000, 3, 20)) - 0.5 + 7.0/24 + 35.0/1440 + deltaTEM(2000.2)/86400
	l := r3SunLon(jd)
	if l > 180 {
		l -= 360
	}
	chk("March equinox 2000", l, 0, 0.012)
	// delta-T spot values (Espenak-Meeus): 2000 -> 63.86 s, 1900 -> -2.79 s, 1000 -> 1574.2 s, 0 -> 10583.6 s
	chk("deltaT 2000", deltaTEM(2000), 63.86, 0.01)
	chk("deltaT 1900", deltaTEM(1900), -2.79, 0.01)
	chk("deltaT 1000", deltaTEM(1000), 1574.2, 0.01)
	chk("deltaT 0", deltaTEM(0), 10583.6, 0.01)
	return bad
}
