//go:build verif

package HolidayUtil

var verifPristineData = dataInUse
var verifPristineNames = namesInUse

// VerifReset restores the pristine holiday table (there is no public way back after Fix).
func VerifReset() {
	dataInUse = verifPristineData
	namesInUse = verifPristineNames
}

// VerifState returns the live table and name list.
func VerifState() ([]string, string) { return namesInUse, dataInUse }
