//go:build verif

package ShouXingUtil

// VerifSaLon exposes the library's own apparent solar longitude (radians) at t Julian centuries
// (TT) from J2000 with n series terms (-1 = all), for the C03 root check.
func VerifSaLon(t float64, n int) float64 { return saLon(t, n) }

// VerifDtT exposes the library's delta-T (days) for a day offset from J2000.
func VerifDtT(t float64) float64 { return DtT(t) }
