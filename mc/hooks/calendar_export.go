//go:build verif

package calendar

// VerifLock exposes the package mutex guarding CACHE_YEAR (a vsync.Mutex under the overlay).
func VerifLock() interface{} { return &lock }
