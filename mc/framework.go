package main

// Framework: parent/worker process model, result merging, evidence, known findings, replay files.

import (
	"bufio"
	"context"
	"encoding/json"
	"fmt"
	"github.com/6tail/lunar-go/calendar"
	"github.com/6tail/lunar-go/vsync"
	"math"
	"os"
	"os/exec"
	"path/filepath"
	"regexp"
	"runtime"
	"runtime/debug"
	"runtime/pprof"
	"sort"
	"strconv"
	"strings"
	"sync"
	"time"
)

// Shard is one unit of work executed by a worker process.
type Shard struct {
	Kind   string   `json:"kind,omitempty"`   // check-defined sub-engine
	Ranges [][2]int `json:"ranges,omitempty"` // inclusive year ranges
	Arg    string   `json:"arg,omitempty"`
	Tier   string   `json:"tier"`
	Seed   int64    `json:"seed"`
}

type Violation struct {
	FP     string      `json:"fp"`    // fingerprint: call site + failing input or narrow class
	Msg    string      `json:"msg"`   // what failed, observed vs expected
	Input  interface{} `json:"input"` // minimal input / op list / schedule
	GoTest string      `json:"go_test,omitempty"`
	Count  int64       `json:"count"` // occurrences with this fingerprint
	Year   int         `json:"year,omitempty"`
}

// FDEntry: functional-dependence witness (key -> value hash).
type FDEntry struct {
	Val     string `json:"v"`
	Witness string `json:"w"`
}

type Result struct {
	States       int64                          `json:"states"`
	Transitions  int64                          `json:"transitions"`
	Traces       int64                          `json:"traces"`
	Evals        int64                          `json:"evals"`
	Nontrivial   int64                          `json:"nontrivial"`
	Counters     map[string]int64               `json:"counters,omitempty"`
	Distinct     map[string]map[string]bool     `json:"distinct,omitempty"` // named sets merged by union
	Samples      []interface{}                  `json:"samples,omitempty"`
	Violations   map[string]*Violation          `json:"violations,omitempty"`
	FD           map[string]map[string]*FDEntry `json:"fd,omitempty"`
	Undecided    int64                          `json:"undecided"`
	Notes        []string                       `json:"notes,omitempty"`
	Inexhaustive string                         `json:"inexhaustive,omitempty"`
}

type W struct {
	Shard     Shard
	R         Result
	fdViolCap int
}

func newW(sh Shard) *W {
	return &W{Shard: sh, R: Result{Counters: map[string]int64{}, Distinct: map[string]map[string]bool{}, Violations: map[string]*Violation{}, FD: map[string]map[string]*FDEntry{}}}
}

func (w *W) Thorough() bool { return w.Shard.Tier == "thorough" }

func (w *W) Viol(fp, msg string, input interface{}) {
	if v, ok := w.R.Violations[fp]; ok {
		v.Count++
		return
	}
	if len(w.R.Violations) >= 400 {
		fp = "overflow:" + strings.SplitN(fp, ":", 2)[0]
		if v, ok := w.R.Violations[fp]; ok {
			v.Count++
			return
		}
	}
	w.R.Violations[fp] = &Violation{FP: fp, Msg: msg, Input: input, Count: 1}
}

func (w *W) ViolT(fp, msg string, input interface{}, gotest string) {
	w.Viol(fp, msg, input)
	if v := w.R.Violations[fp]; v != nil && v.GoTest == "" {
		v.GoTest = gotest
	}
}

func (w *W) Sample(x interface{}) {
	if len(w.R.Samples) < 3 {
		w.R.Samples = append(w.R.Samples, x)
	}
}
func (w *W) Count(name string, n int64) { w.R.Counters[name] += n }
func (w *W) DistinctAdd(set, val string) {
	m := w.R.Distinct[set]
	if m == nil {
		m = map[string]bool{}
		w.R.Distinct[set] = m
	}
	if len(m) < 200000 {
		m[val] = true
	}
}

// FDCheck records key->val in table; a second value for the same key is a violation.
func (w *W) FDCheck(table, key, val, witness string) {
	t := w.R.FD[table]
	if t == nil {
		t = map[string]*FDEntry{}
		w.R.FD[table] = t
	}
	if e, ok := t[key]; ok {
		if e.Val != val {
			w.Viol("fd:"+table, fmt.Sprintf("attribute group %q is not a function of its key: key=%s gives %q at %s but %q at %s", table, key, e.Val, e.Witness, val, witness), map[string]string{"a": e.Witness, "b": witness, "key": key})
		}
		return
	}
	t[key] = &FDEntry{Val: val, Witness: witness}
}

// ---------------------------------------------------------------------------------------------

type Check struct {
	ID            string
	Rule          string                                   // how cases are enumerated / what is non-trivial
	Assume        []string                                 // trusted base
	Shards        func(tier string, seed int64) []Shard    // work decomposition
	Run           func(w *W)                               // worker body
	Post          func(m *Result, tier string)             // optional parent-side global check after merge
	Bounds        func(tier string) map[string]interface{} // reported bounds
	MinNontrivial int64
}

var registry = map[string]*Check{}

func register(c *Check) { registry[c.ID] = c }

// ---------------------------------------------------------------------------------------------
// year sets

var seamWindows = [][2]int{{1, 30}, {230, 245}, {1575, 1590}, {1640, 1650}, {1895, 1905}, {1925, 1932}, {1955, 1965}, {1995, 2035}, {2995, 3005}, {9990, 9998}}

func quickYears(seed int64, maxYear int) []int {
	in := map[int]bool{}
	for _, s := range seamWindows {
		for y := s[0]; y <= s[1] && y <= maxYear; y++ {
			in[y] = true
		}
	}
	r := int(((seed % 97) + 97) % 97)
	for y := 1; y <= maxYear; y++ {
		if y%97 == r {
			in[y] = true
		}
	}
	// century years: the Julian and Gregorian leap rules differ exactly there
	for y := 100; y <= 2400 && y <= maxYear; y += 100 {
		in[y] = true
	}
	// boundary entries of the library's hard-coded year lists (first, last) and the year after each
	for _, lst := range [][]int{calendar.LEAP_11, calendar.LEAP_12} {
		var inRange []int
		for _, y := range lst {
			if y >= 1 && y < maxYear {
				inRange = append(inRange, y)
			}
		}
		if len(inRange) > 0 {
			for _, y := range []int{inRange[0], inRange[len(inRange)-1]} {
				in[y], in[y+1] = true, true
			}
		}
	}
	in[maxYear] = true // the last year of the stated range itself
	ys := make([]int, 0, len(in))
	for y := range in {
		ys = append(ys, y)
	}
	sort.Ints(ys)
	return ys
}

// tieYears: years in which a solar-term instant lies within 1.5 s of local midnight, i.e. where rounding to the second
// decides which civil day the term falls on (found by scanning the library's own term tables; parent process only).
func tieYears() []int {
	var out []int
	for y := 1; y <= 9998; y++ {
		func() {
			defer func() { recover() }()
			for _, jd := range calendar.NewLunarYear(y).GetJieQiJulianDays() {
				f := (jd + 0.5 - math.Floor(jd+0.5)) * 86400
				if f < 1.5 || f > 86398.5 {
					cy := calendar.NewSolarFromJulianDay(jd).GetYear()
					out = append(out, cy-1, cy, cy+1)
				}
			}
		}()
	}
	return out
}

// toRangesPairs merges adjacent single-year ranges.
func toRangesPairs(rs [][2]int) [][2]int {
	var ys []int
	for _, r := range rs {
		for y := r[0]; y <= r[1]; y++ {
			ys = append(ys, y)
		}
	}
	return toRanges(ys)
}

func toRanges(ys []int) [][2]int {
	var out [][2]int
	for _, y := range ys {
		if n := len(out); n > 0 && out[n-1][1]+1 == y {
			out[n-1][1] = y
		} else {
			out = append(out, [2]int{y, y})
		}
	}
	return out
}

// splitRanges distributes ranges into about n shards with similar year counts; long ranges are cut.
func splitRanges(rs [][2]int, n int, sh Shard) []Shard {
	total := 0
	for _, r := range rs {
		total += r[1] - r[0] + 1
	}
	per := (total + n - 1) / n
	if per < 1 {
		per = 1
	}
	var out []Shard
	cur := sh
	cur.Ranges = nil
	acc := 0
	for _, r := range rs {
		lo := r[0]
		for lo <= r[1] {
			room := per - acc
			hi := lo + room - 1
			if hi > r[1] {
				hi = r[1]
			}
			cur.Ranges = append(cur.Ranges, [2]int{lo, hi})
			acc += hi - lo + 1
			lo = hi + 1
			if acc >= per {
				out = append(out, cur)
				cur = sh
				cur.Ranges = nil
				acc = 0
			}
		}
	}
	if len(cur.Ranges) > 0 {
		out = append(out, cur)
	}
	return out
}

// yearShards: standard decomposition. quick = seam windows + stride years; thorough = all years.
func yearShards(tier string, seed int64, maxYear int, kind string) []Shard {
	return yearShardsWith(tier, seed, maxYear, kind, nil)
}

// cycleYears: the images of the reform year 1582 under the 400-year Gregorian cycle (146097 days = 20871 weeks):
// shortcuts by whole cycles meet the Julian part of 1582 exactly from these years. Added to the quick year set of
// the cheap civil-arithmetic checks (C04, C15).
func cycleYears() []int {
	var ys []int
	for y := 1582 % 400; y <= 9998; y += 400 {
		ys = append(ys, y)
	}
	return ys
}

func yearShardsWith(tier string, seed int64, maxYear int, kind string, extra []int) []Shard {
	base := Shard{Kind: kind, Tier: tier, Seed: seed}
	if tier == "thorough" {
		return splitRanges([][2]int{{1, maxYear}}, 64, base)
	}
	in := map[int]bool{}
	for _, y := range quickYears(seed, maxYear) {
		in[y] = true
	}
	for _, y := range append(extra, tieYears()...) {
		if y >= 1 && y <= maxYear {
			in[y] = true
		}
	}
	ys := make([]int, 0, len(in))
	for y := range in {
		ys = append(ys, y)
	}
	sort.Ints(ys)
	return splitRanges(toRanges(ys), 48, base)
}

// ---------------------------------------------------------------------------------------------
// known findings

type knownLine struct {
	prop, fp, text string
}

func loadKnown() []knownLine {
	var out []knownLine
	f, err := os.Open(filepath.Join(verifDir(), "KNOWN_FINDINGS.txt"))
	if err != nil {
		return nil
	}
	defer f.Close()
	re := regexp.MustCompile(`^known:\s+property=(\S+)\s+fp=(\S+)\s*(.*)$`)
	sc := bufio.NewScanner(f)
	for sc.Scan() {
		if m := re.FindStringSubmatch(strings.TrimSpace(sc.Text())); m != nil {
			out = append(out, knownLine{m[1], m[2], m[3]})
		}
	}
	return out
}

func verifDir() string {
	if d := os.Getenv("VERIF_DIR"); d != "" {
		return d
	}
	return "/verif"
}

// ---------------------------------------------------------------------------------------------
// parent

func merge(dst *Result, src *Result) {
	dst.States += src.States
	dst.Transitions += src.Transitions
	dst.Traces += src.Traces
	dst.Evals += src.Evals
	dst.Nontrivial += src.Nontrivial
	dst.Undecided += src.Undecided
	for k, v := range src.Counters {
		dst.Counters[k] += v
	}
	for k, s := range src.Distinct {
		m := dst.Distinct[k]
		if m == nil {
			m = map[string]bool{}
			dst.Distinct[k] = m
		}
		for v := range s {
			m[v] = true
		}
	}
	if len(dst.Samples) < 6 {
		dst.Samples = append(dst.Samples, src.Samples...)
	}
	for fp, v := range src.Violations {
		if e, ok := dst.Violations[fp]; ok {
			e.Count += v.Count
		} else {
			dst.Violations[fp] = v
		}
	}
	for tn, t := range src.FD {
		d := dst.FD[tn]
		if d == nil {
			d = map[string]*FDEntry{}
			dst.FD[tn] = d
		}
		for k, e := range t {
			if o, ok := d[k]; ok {
				if o.Val != e.Val {
					fp := "fd:" + tn
					if _, dup := dst.Violations[fp]; !dup {
						dst.Violations[fp] = &Violation{FP: fp, Msg: fmt.Sprintf("attribute group %q is not a function of its key: key=%s gives %q at %s but %q at %s", tn, k, o.Val, o.Witness, e.Val, e.Witness), Input: map[string]string{"a": o.Witness, "b": e.Witness, "key": k}, Count: 1}
					} else {
						dst.Violations[fp].Count++
					}
				}
			} else {
				d[k] = e
			}
		}
	}
	dst.Notes = append(dst.Notes, src.Notes...)
	if src.Inexhaustive != "" {
		dst.Inexhaustive = src.Inexhaustive
	}
}

func runParent(id, tier string, only *Shard) int {
	c := registry[id]
	if c == nil {
		fmt.Fprintf(os.Stderr, "ERROR unknown check %s\n", id)
		return 2
	}
	t0 := time.Now()
	seed := int64(1)
	if s := os.Getenv("VERIF_SEED"); s != "" {
		if v, err := strconv.ParseInt(s, 10, 64); err == nil {
			seed = v
		}
	}
	var shards []Shard
	if only != nil {
		shards = []Shard{*only}
	} else {
		shards = c.Shards(tier, seed)
	}
	// development aid (never set by a registered command): VERIF_SHARD_STRIDE=k/n keeps every n-th shard starting with
	// the k-th, to spread a long thorough run over several sittings; the run is then reported as not exhaustive
	stride := ""
	if s := os.Getenv("VERIF_SHARD_STRIDE"); s != "" && only == nil {
		var k, n int
		if _, err := fmt.Sscanf(s, "%d/%d", &k, &n); err == nil && n > 1 {
			var keep []Shard
			for i, sh := range shards {
				if i%n == k%n {
					keep = append(keep, sh)
				}
			}
			shards = keep
			stride = "VERIF_SHARD_STRIDE=" + s + ": only every n-th shard was run"
		}
	}
	par := 16
	if s := os.Getenv("VERIF_PAR"); s != "" {
		if v, err := strconv.Atoi(s); err == nil && v > 0 {
			par = v
		}
	}
	exe, _ := os.Executable()
	total := &Result{Counters: map[string]int64{}, Distinct: map[string]map[string]bool{}, Violations: map[string]*Violation{}, FD: map[string]map[string]*FDEntry{}}
	total.Inexhaustive = stride
	var mu sync.Mutex
	sem := make(chan struct{}, par)
	var wg sync.WaitGroup
	failed := ""
	for i := range shards {
		wg.Add(1)
		sem <- struct{}{}
		go func(sh Shard, idx int) {
			defer wg.Done()
			defer func() { <-sem }()
			js, _ := json.Marshal(sh)
			// watchdog: a worker that runs absurdly long (quick 30 min, thorough 6 h) is killed; that is a harness error (exit 2), never a verdict
			limit := 30 * time.Minute
			if tier == "thorough" {
				limit = 6 * time.Hour
			}
			ctx, cancel := context.WithTimeout(context.Background(), limit)
			defer cancel()
			cmd := exec.CommandContext(ctx, exe, "worker", id, string(js))
			// the process time zone is part of the environment the harness owns: it rotates over the shards (UTC, the
			// library's home zone with its 1986-1991 daylight-saving years, a zone with yearly clock changes, a zone
			// that once skipped a civil day by crossing the date line). Nothing the library answers may depend on it; reference models and the merged
			// dependence tables would show a difference. (C10 reads the clock's year: kept in UTC.)
			tz := []string{"UTC", "Asia/Shanghai", "America/New_York", "Pacific/Apia"}[idx%4]
			if id == "C10" {
				tz = "UTC"
			}
			cmd.Env = append(os.Environ(), "GOMAXPROCS=2", "TZ="+tz)
			cmd.Stderr = os.Stderr
			out, err := cmd.Output()
			mu.Lock()
			defer mu.Unlock()
			// the result is the last line starting with RESULT
			var res Result
			ok := false
			for _, ln := range strings.Split(string(out), "\n") {
				if strings.HasPrefix(ln, "RESULT ") {
					if json.Unmarshal([]byte(ln[7:]), &res) == nil {
						ok = true
					}
				}
			}
			if err != nil || !ok {
				failed = fmt.Sprintf("worker for shard %s failed: %v; tail=%s", string(js), err, tail(string(out), 400))
				return
			}
			merge(total, &res)
		}(shards[i], i)
	}
	wg.Wait()
	if failed != "" {
		fmt.Fprintf(os.Stderr, "ERROR %s\n", failed)
		return 2
	}
	if c.Post != nil {
		c.Post(total, tier)
	}
	if only != nil {
		// replay mode: print violations only
		code := 0
		for _, fp := range sortedFPs(total) {
			fmt.Printf("REPRODUCED fp=%s %s\n", fp, total.Violations[fp].Msg)
			code = 1
		}
		return code
	}
	return report(c, tier, seed, total, len(shards), time.Since(t0))
}

func tail(s string, n int) string {
	if len(s) > n {
		return s[len(s)-n:]
	}
	return s
}

func sortedFPs(r *Result) []string {
	fps := make([]string, 0, len(r.Violations))
	for fp := range r.Violations {
		fps = append(fps, fp)
	}
	sort.Strings(fps)
	return fps
}

var fpSan = regexp.MustCompile(`[^A-Za-z0-9_.-]+`)

func report(c *Check, tier string, seed int64, total *Result, nshards int, wall time.Duration) int {
	known := loadKnown()
	isKnown := func(fp string) *knownLine {
		for i := range known {
			if known[i].prop == c.ID && known[i].fp == fp {
				return &known[i]
			}
		}
		return nil
	}
	vdir := verifDir()
	code := 0
	var knownSeen []string
	nviol := 0
	for _, fp := range sortedFPs(total) {
		v := total.Violations[fp]
		if k := isKnown(fp); k != nil {
			fmt.Printf("KNOWN-FINDING: property=%s fp=%s %s (occurrences this run: %d)\n", c.ID, fp, k.text, v.Count)
			knownSeen = append(knownSeen, fp)
			continue
		}
		nviol++
		dir := filepath.Join(vdir, "replays", c.ID)
		os.MkdirAll(dir, 0o755)
		p := filepath.Join(dir, fpSan.ReplaceAllString(fp, "_")+".json")
		js, _ := json.MarshalIndent(map[string]interface{}{"property": c.ID, "fingerprint": fp, "message": v.Msg, "input": v.Input, "occurrences": v.Count, "go_test": v.GoTest, "tier": tier, "seed": seed}, "", " ")
		os.WriteFile(p, js, 0o644)
		fmt.Printf("VIOLATION property=%s replay=%s\n", c.ID, p)
		fmt.Printf("  fp=%s count=%d: %s\n", fp, v.Count, v.Msg)
		code = 1
	}
	// vacuity guard
	if code == 0 && (total.States < 1 || total.Transitions < 1 || total.Nontrivial < max64(2, c.MinNontrivial)) {
		fmt.Fprintf(os.Stderr, "ERROR vacuous: states=%d transitions=%d nontrivial=%d (min %d)\n", total.States, total.Transitions, total.Nontrivial, c.MinNontrivial)
		code = 2
	}
	cov := map[string]interface{}{
		"states":                        total.States,
		"transitions":                   total.Transitions,
		"traces_validated_against_impl": total.Traces,
		"evaluations":                   total.Evals,
		"distinct_nontrivial":           total.Nontrivial,
		"rule":                          c.Rule,
		"samples":                       total.Samples,
		"exhaustive":                    total.Inexhaustive == "",
		"undecided_by_oracle":           total.Undecided,
		"known_findings_seen":           knownSeen,
		"shards":                        nshards,
		"counters":                      total.Counters,
	}
	if total.Inexhaustive != "" {
		cov["inexhaustive_reason"] = total.Inexhaustive
	}
	dc := map[string]int{}
	for k, s := range total.Distinct {
		dc[k] = len(s)
	}
	cov["distinct_sets"] = dc
	fdc := map[string]int{}
	for k, t := range total.FD {
		fdc[k] = len(t)
	}
	if len(fdc) > 0 {
		cov["functional_dependence_keys"] = fdc
	}
	if c.Bounds != nil {
		cov["bounds"] = c.Bounds(tier)
	}
	if len(total.Notes) > 0 {
		cov["notes"] = uniq(total.Notes)
	}
	if len(total.Samples) == 0 {
		cov["samples"] = []interface{}{"(none recorded)"}
	}
	ev := map[string]interface{}{
		"property_id": c.ID,
		"tier":        tier,
		"seed":        seed,
		"level":       "model_checking",
		"coverage":    cov,
		"assumptions": c.Assume,
		"wall_s":      wall.Seconds(),
		"violations":  nviol,
	}
	os.MkdirAll(filepath.Join(vdir, "evidence"), 0o755)
	js, _ := json.MarshalIndent(ev, "", " ")
	os.WriteFile(filepath.Join(vdir, "evidence", c.ID+".json"), js, 0o644)
	fmt.Printf("%s tier=%s states=%d transitions=%d validated=%d evals=%d nontrivial=%d undecided=%d violations=%d known=%d wall=%.1fs exhaustive=%v\n",
		c.ID, tier, total.States, total.Transitions, total.Traces, total.Evals, total.Nontrivial, total.Undecided, nviol, len(knownSeen), wall.Seconds(), total.Inexhaustive == "")
	return code
}

func uniq(s []string) []string {
	m := map[string]bool{}
	var o []string
	for _, x := range s {
		if !m[x] {
			m[x] = true
			o = append(o, x)
		}
	}
	return o
}

func max64(a, b int64) int64 {
	if a > b {
		return a
	}
	return b
}

func runWorker(id, shardJSON string) int {
	c := registry[id]
	if c == nil {
		return 2
	}
	var sh Shard
	if err := json.Unmarshal([]byte(shardJSON), &sh); err != nil {
		fmt.Fprintln(os.Stderr, "bad shard", err)
		return 2
	}
	w := newW(sh)
	if pf := os.Getenv("VERIF_PROF"); pf != "" {
		f, _ := os.Create(pf)
		pprof.StartCPUProfile(f)
		defer pprof.StopCPUProfile()
	}
	func() {
		defer func() {
			if r := recover(); r != nil {
				// an uncaught panic escaping from library code is a totality violation of the property under check
				st := string(debug.Stack())
				site := "unknown"
				for _, ln := range strings.Split(st, "\n") {
					if strings.HasPrefix(ln, "github.com/6tail/lunar-go/") && !strings.Contains(ln, "/vsync.") {
						site = strings.TrimPrefix(ln, "github.com/6tail/lunar-go/")
						if k := strings.LastIndex(site, "("); k > 0 { // drop the argument list (addresses differ from run to run)
							site = site[:k]
						}
						break
					}
				}
				if site == "unknown" {
					panic(r) // not in library code: a harness bug must stay a harness error (exit 2), never a VIOLATION
				}
				w.Viol(id+":uncaught-panic:"+site, fmt.Sprintf("library panicked in %s while the check was running: %v", site, r), tail(st, 1500))
			}
		}()
		if id != "C09" {
			// all checks but C09 drive the library from this one goroutine: waiting for a mutex that is held is a
			// certain deadlock and is reported at once (see vsync.SetSingleThreaded)
			vsync.SetSingleThreaded(runtime.NumGoroutine())
		}
		c.Run(w)
	}()
	js, err := json.Marshal(&w.R)
	if err != nil {
		fmt.Fprintln(os.Stderr, "marshal", err)
		return 2
	}
	out := bufio.NewWriterSize(os.Stdout, 1<<20)
	out.WriteString("RESULT ")
	out.Write(js)
	out.WriteString("\n")
	out.Flush()
	return 0
}

// narrowShards: like yearShards, but the quick tier uses a narrower seam set (for checks whose states cost ~1 ms or more).
// weightedYearShards: contiguous year ranges over 1..maxYear of about equal weight, a year of the quick set counting
// heavy times a plain year (thorough tiers that run a deeper pass on the quick set's years: without the weights the
// shards holding 1900..2040 run ten times longer than the rest).
func weightedYearShards(tier string, seed int64, maxYear int, heavy int, n int) []Shard {
	base := Shard{Tier: tier, Seed: seed}
	in := map[int]bool{}
	total := 0
	for _, y := range quickYears(seed, maxYear) {
		in[y] = true
	}
	wt := func(y int) int {
		if in[y] {
			return heavy
		}
		return 1
	}
	for y := 1; y <= maxYear; y++ {
		total += wt(y)
	}
	per := (total + n - 1) / n
	var out []Shard
	lo, acc := 1, 0
	for y := 1; y <= maxYear; y++ {
		acc += wt(y)
		if acc >= per || y == maxYear {
			sh := base
			sh.Ranges = [][2]int{{lo, y}}
			out = append(out, sh)
			lo, acc = y+1, 0
		}
	}
	return out
}

func narrowShards(tier string, seed int64) []Shard {
	if tier == "thorough" {
		return yearShards(tier, seed, 9998, "")
	}
	in := map[int]bool{}
	for _, r := range [][2]int{{1, 30}, {236, 240}, {1574, 1584}, {1644, 1646}, {1899, 1901}, {1928, 1930}, {1959, 1961}, {2015, 2030}, {9996, 9998}} {
		for y := r[0]; y <= r[1]; y++ {
			in[y] = true
		}
	}
	for y := 1; y <= 9998; y++ {
		if y%97 == int(((seed%97)+97)%97) {
			in[y] = true
		}
	}
	for y := 100; y <= 2400; y += 200 {
		in[y] = true
	}
	var ys []int
	for y := range in {
		ys = append(ys, y)
	}
	sort.Ints(ys)
	return splitRanges(toRanges(ys), 48, Shard{Tier: tier, Seed: seed})
}
