// Package vsync is the verification shim that replaces "sync" inside lunar-go when it is built
// through /verif's build overlay. With no scheduler attached every operation is a pass-through to
// the real sync package; with a scheduler attached (C09 schedule exploration) Lock/Unlock are
// scheduling points owned by the explorer.
package vsync

import (
	"runtime"
	"sync"
	"sync/atomic"
)

// single > 0: the harness drives the library from one goroutine and single is the number of goroutines that
// existed when it said so. Acquiring a mutex that is already held can then never succeed unless the library
// itself started a goroutine that will release it; if the goroutine count has not grown, the wait is a certain
// deadlock and is reported by panicking at once (the checks turn that into "the library is left blocked")
// instead of hanging until the watchdog. Otherwise the operation blocks as usual.
var single atomic.Int32

func SetSingleThreaded(baselineGoroutines int) { single.Store(int32(baselineGoroutines)) }

const BlockedMsg = "vsync: the library is blocked: a mutex that was never released is being acquired and no other goroutine exists that could release it"

func certainDeadlock() bool {
	b := single.Load()
	return b > 0 && runtime.NumGoroutine() <= int(b)
}

// Hook is installed by the explorer. All methods are called on the goroutine performing the operation.
type Hook interface {
	Lock(m *Mutex)
	Unlock(m *Mutex)
}

var hook atomic.Value // holds hookBox

type hookBox struct{ h Hook }

// Attach installs (or with nil removes) the scheduler hook.
func Attach(h Hook) { hook.Store(hookBox{h}) }

func current() Hook {
	v := hook.Load()
	if v == nil {
		return nil
	}
	return v.(hookBox).h
}

type Mutex struct {
	mu sync.Mutex
	// Held/Owner are maintained only under a scheduler (cooperative, single runner at a time).
	Held  bool
	Owner int
}

func (m *Mutex) Lock() {
	if h := current(); h != nil {
		h.Lock(m)
		return
	}
	if single.Load() > 0 {
		if m.mu.TryLock() {
			return
		}
		if certainDeadlock() {
			panic(BlockedMsg)
		}
	}
	m.mu.Lock()
}

func (m *Mutex) Unlock() {
	if h := current(); h != nil {
		h.Unlock(m)
		return
	}
	m.mu.Unlock()
}

func (m *Mutex) TryLock() bool {
	if h := current(); h != nil {
		if m.Held {
			return false
		}
		h.Lock(m)
		return true
	}
	return m.mu.TryLock()
}

// RWMutex is modelled as an exclusive mutex under the scheduler (sound for "no deadlock /
// same results" exploration of code that only needs mutual exclusion; conservative otherwise).
type RWMutex struct {
	Mutex
	rw sync.RWMutex
}

func (m *RWMutex) RLock() {
	if h := current(); h != nil {
		h.Lock(&m.Mutex)
		return
	}
	if single.Load() > 0 {
		if m.rw.TryRLock() {
			return
		}
		if certainDeadlock() {
			panic(BlockedMsg)
		}
	}
	m.rw.RLock()
}
func (m *RWMutex) RUnlock() {
	if h := current(); h != nil {
		h.Unlock(&m.Mutex)
		return
	}
	m.rw.RUnlock()
}
func (m *RWMutex) Lock() {
	if h := current(); h != nil {
		h.Lock(&m.Mutex)
		return
	}
	if single.Load() > 0 {
		if m.rw.TryLock() {
			return
		}
		if certainDeadlock() {
			panic(BlockedMsg)
		}
	}
	m.rw.Lock()
}
func (m *RWMutex) Unlock() {
	if h := current(); h != nil {
		h.Unlock(&m.Mutex)
		return
	}
	m.rw.Unlock()
}

type Once struct {
	m    Mutex
	done bool
	o    sync.Once
}

func (o *Once) Do(f func()) {
	if current() == nil {
		o.o.Do(f)
		return
	}
	o.m.Lock()
	defer o.m.Unlock()
	if !o.done {
		defer func() { o.done = true }()
		f()
	}
}

type WaitGroup = sync.WaitGroup
type Map = sync.Map
type Pool = sync.Pool
