package main

// C05 — pillars: unbroken 60-cycles with exact change-overs. Engine E1 with reference R2 (mod-60
// counters) evaluated on the library's own term table.

import (
	"fmt"
	"time"

	"github.com/6tail/lunar-go/LunarUtil"
	"github.com/6tail/lunar-go/calendar"
)

type Term struct {
	Idx int
	Key string // table key (upper-case aliases for the out-of-year entries)
	S   *calendar.Solar
	J   int // civil day number
	Sec int // second of day
}

func (t Term) inst() int64 { return int64(t.J)*86400 + int64(t.Sec) }

// termsOf lists the 31 entries of a lunar object's term table in table order.
func termsOf(l *calendar.Lunar) []Term {
	tb := l.GetJieQiTable()
	out := make([]Term, 0, 31)
	i := 0
	for e := l.GetJieQiList().Front(); e != nil; e = e.Next() {
		k := e.Value.(string)
		s := tb[k]
		out = append(out, Term{Idx: i, Key: k, S: s, J: r1JDN(s.GetYear(), s.GetMonth(), s.GetDay()), Sec: s.GetHour()*3600 + s.GetMinute()*60 + s.GetSecond()})
		i++
	}
	return out
}

func init() {
	register(&Check{
		ID:            "C05",
		Rule:          "every civil day in the year set (thorough: all days 1..9998) x (26 slot-edge times [quick: the 4 edges of the first and last slot + 3 rotating inner slots = 10] + {t-1s,t,t+1s} for every solar-term instant t on that day): all pillar getters (index and string forms, EightChar under sect 1 and 2) compared with the mod-60 reference evaluated on the library's own term table. non-trivial = states lying on a change-over: 23:00 edge, a Jie day/instant, Lichun day/instant, lunar New Year's Day",
		Assume:        []string{"day pillar anchor (JDN+49) mod 60 (2000-01-01 = wu-wu, index 54)", "whether the term table itself is right is C03's job; C05 takes the library's own term days/instants"},
		Shards:        func(tier string, seed int64) []Shard { return yearShards(tier, seed, 9998, "") },
		Run:           runC05,
		MinNontrivial: 100,
	})
}

func pillarSig(l *calendar.Lunar) string {
	return l.GetYearInGanZhi() + l.GetYearInGanZhiByLiChun() + l.GetYearInGanZhiExact() + " " + l.GetMonthInGanZhi() + l.GetMonthInGanZhiExact() + " " +
		l.GetDayInGanZhi() + l.GetDayInGanZhiExact() + l.GetDayInGanZhiExact2() + " " + l.GetTimeInGanZhi()
}

func inJiaZi(s string) bool { return LunarUtil.GetJiaZiIndex(s) >= 0 }

func runC05(w *W) {
	perturbCache = true
	// every minute of one day per shard (first and last second of the minute), and the slot helper on all 1440
	// "HH:MM" strings: the hour branch is a function of the two-hour slot alone, the stem follows the (early-rat) day stem
	if len(w.Shard.Ranges) > 0 {
		y := w.Shard.Ranges[0][0]
		j := r1JDN(y, 1, 1) + (y*7)%300
		cy, cm, cd := r1FromJDN(j)
		di := r2DayIndex(j)
		for mi := 0; mi < 1440; mi++ {
			h, m := mi/60, mi%60
			slot := ((h + 1) / 2) % 12
			hm := fmt.Sprintf("%02d:%02d", h, m)
			if g := LunarUtil.GetTimeZhiIndex(hm); g != slot || LunarUtil.ConvertTime(hm) != zhiS[slot] {
				w.Viol("C05:GetTimeZhiIndex:"+hm, fmt.Sprintf("GetTimeZhiIndex(%q) = %d, ConvertTime = %s; the slot is %d %s", hm, g, LunarUtil.ConvertTime(hm), slot, zhiS[slot]), hm)
			}
			// the helper also takes "HH:MM:SS" (the printed time of a moment): same slot for every second of the minute
			for _, ss := range []string{":00", ":30", ":59"} {
				if g := LunarUtil.GetTimeZhiIndex(hm + ss); g != slot || LunarUtil.ConvertTime(hm+ss) != zhiS[slot] {
					w.Viol("C05:GetTimeZhiIndex:"+hm+ss, fmt.Sprintf("GetTimeZhiIndex(%q) = %d, ConvertTime = %s; the slot is %d %s", hm+ss, g, LunarUtil.ConvertTime(hm+ss), slot, zhiS[slot]), hm+ss)
				}
			}
			ex := di
			if h == 23 {
				ex = (di + 1) % 60
			}
			for _, sec := range []int{0, 59} {
				var l *calendar.Lunar
				if msg, p := try(func() { l = calendar.NewSolar(cy, cm, cd, h, m, sec).GetLunar() }); p {
					w.Viol("C05:minute:panic:"+hm, msg, hm)
					continue
				}
				w.R.Evals++
				if l.GetTimeZhiIndex() != slot || l.GetTimeGanIndex() != (ex%10%5*2+slot)%10 || l.GetDayInGanZhiExact() != gz(ex) || l.GetDayInGanZhiExact2() != gz(di) || l.GetDayInGanZhi() != gz(di) {
					w.Viol("C05:minute:"+hm, fmt.Sprintf("%04d-%02d-%02d %s:%02d: hour pillar %s, day pillars %s/%s/%s; rule says hour %s, day %s/%s/%s", cy, cm, cd, hm, sec,
						l.GetTimeInGanZhi(), l.GetDayInGanZhi(), l.GetDayInGanZhiExact(), l.GetDayInGanZhiExact2(), ganS[(ex%10%5*2+slot)%10]+zhiS[slot], gz(di), gz(ex), gz(di)), hm)
				}
			}
		}
	}
	walkLunar = true
	sweepDays(w, "C05", func(d *Day, prev *Day) {
		l0 := d.L()
		// objects reached by navigation have the pillars of the directly built ones: the walking object at 00:00:00 and
		// single hops (forward from the previous day, backward from the next, and a hop of a lunar month) at 23:30 / 12:00
		{
			type rt struct {
				name string
				o    *calendar.Lunar
				ref  *calendar.Lunar
			}
			rts := []rt{{"walking object (Next(1) since the start of the range)", curWalk, l0}}
			for k, n := range []int{1, -1, []int{29, -29, 30, -30, 15, -15}[d.J%6]} {
				h := []int{23, 12, 0}[k]
				mi := []int{30, 0, 59}[k]
				var o, ref *calendar.Lunar
				try(func() {
					ref = d.At(h, mi, 0).GetLunar()
					o = d.At(h, mi, 0).NextDay(-n).GetLunar().Next(n)
				})
				rts = append(rts, rt{fmt.Sprintf("object %d days away at %02d:%02d .Next(%d)", -n, h, mi, n), o, ref})
			}
			for _, r := range rts {
				if r.o == nil || r.ref == nil || r.o.GetSolar().ToYmdHms() != r.ref.GetSolar().ToYmdHms() {
					continue
				}
				w.R.Evals++
				if a, b := pillarSig(r.o), pillarSig(r.ref); a != b {
					w.Viol("C05:route:"+d.Ymd, fmt.Sprintf("%s: pillars of the %s are %s, of the directly built object %s", r.ref.GetSolar().ToYmdHms(), r.name, a, b), d.Ymd)
				}
			}
		}
		terms := termsOf(l0)
		if len(terms) != 31 {
			w.Viol("C05:termtable:"+d.Ymd, fmt.Sprintf("term table has %d entries", len(terms)), d.Ymd)
			return
		}
		// Lichun of this civil year
		var lichun *Term
		for i := range terms {
			if (terms[i].Key == "立春" || terms[i].Key == "LI_CHUN") && terms[i].S.GetYear() == d.Y {
				lichun = &terms[i]
			}
		}
		if lichun == nil {
			w.Viol("C05:no-lichun:"+d.Ymd, "no Lichun of the civil year in the term table", d.Ymd)
			return
		}
		times := append([]hms{}, tbTimes...)
		if !w.Thorough() {
			// quick tier: both edges of the day's first and last slot on every day, and three of the eleven inner slots
			// (both edges each), rotating with the day number so that every slot edge is visited every 11 days
			times = append([]hms{}, tbTimes[0], tbTimes[1], tbTimes[24], tbTimes[25])
			for _, k := range []int{d.J % 11, (d.J + 4) % 11, (d.J + 7) % 11} {
				times = append(times, tbTimes[2+2*k], tbTimes[3+2*k])
			}
		}
		nBase := len(times)
		for _, t := range terms {
			if t.J == d.J {
				for _, ds := range []int{-1, 0, 1} {
					s := t.Sec + ds
					if s >= 0 && s < 86400 {
						times = append(times, hms{s / 3600, s / 60 % 60, s % 60})
					}
				}
			}
		}
		dayIdx := r2DayIndex(d.J)
		for _, t := range times {
			l := d.At(t.h, t.m, t.s).GetLunar()
			w.R.Evals++
			now := int64(d.J)*86400 + int64(t.h*3600+t.m*60+t.s)
			where := fmt.Sprintf("%s %02d:%02d:%02d", d.Ymd, t.h, t.m, t.s)
			nontriv := false
			bad := func(what string, got, want interface{}) {
				w.Viol("C05:"+what+":"+d.Ymd, fmt.Sprintf("%s at %s: got %v, reference %v", what, where, got, want), where)
			}
			// --- day pillar
			if l.GetDayGanIndex() != dayIdx%10 || l.GetDayZhiIndex() != dayIdx%12 {
				bad("day", gzIndex(l.GetDayGanIndex(), l.GetDayZhiIndex()), dayIdx)
			}
			ex := dayIdx
			if t.h == 23 {
				ex = (dayIdx + 1) % 60
				nontriv = true
			}
			if l.GetDayGanIndexExact() != ex%10 || l.GetDayZhiIndexExact() != ex%12 {
				bad("dayExact", gzIndex(l.GetDayGanIndexExact(), l.GetDayZhiIndexExact()), ex)
			}
			if l.GetDayGanIndexExact2() != dayIdx%10 || l.GetDayZhiIndexExact2() != dayIdx%12 {
				bad("dayExact2", gzIndex(l.GetDayGanIndexExact2(), l.GetDayZhiIndexExact2()), dayIdx)
			}
			// --- hour pillar
			slot := ((t.h + 1) / 2) % 12
			if l.GetTimeZhiIndex() != slot || l.GetTimeGanIndex() != (ex%10%5*2+slot)%10 {
				bad("time", fmt.Sprintf("%d/%d", l.GetTimeGanIndex(), l.GetTimeZhiIndex()), fmt.Sprintf("%d/%d", (ex%10%5*2+slot)%10, slot))
			}
			// --- hour objects: Lunar.GetTime() and, from receivers at the day's first moment and at 23:xx, every entry of
			// Lunar.GetTimes() (the list must not depend on the receiver's own time of day)
			if lt := l.GetTime(); lt.GetZhiIndex() != slot || lt.GetGanIndex() != (ex%10%5*2+slot)%10 || lt.GetGanZhi() != ganS[(ex%10%5*2+slot)%10]+zhiS[slot] {
				bad("LunarTime(GetTime)", lt.GetGanZhi(), ganS[(ex%10%5*2+slot)%10]+zhiS[slot])
			}
			if (t.h == 23 || t.h == 0) && t.m == 0 && t.s == 0 {
				for k, lt := range l.GetTimes() {
					ks := k % 12
					stemDay := dayIdx
					if k == 12 {
						stemDay = (dayIdx + 1) % 60 // the 23:00 entry belongs to the next day's rat hour
					}
					wg := (stemDay%10%5*2 + ks) % 10
					if lt.GetZhiIndex() != ks || lt.GetGanIndex() != wg {
						bad(fmt.Sprintf("LunarTime(GetTimes[%d])", k), lt.GetGanZhi(), ganS[wg]+zhiS[ks])
					}
				}
			}
			// --- year pillar, three conventions
			yNew := mod(l.GetYear()-4, 60)
			if l.GetYearGanIndex() != yNew%10 || l.GetYearZhiIndex() != yNew%12 {
				bad("yearByNewYear", gzIndex(l.GetYearGanIndex(), l.GetYearZhiIndex()), yNew)
			}
			yDay := mod(d.Y-4, 60)
			if d.J < lichun.J {
				yDay = mod(yDay-1, 60)
			}
			yEx := mod(d.Y-4, 60)
			if now < lichun.inst() {
				yEx = mod(yEx-1, 60)
			}
			if d.J == lichun.J || (l.GetMonth() == 1 && l.GetDay() == 1) {
				nontriv = true
			}
			if l.GetYearGanIndexByLiChun() != yDay%10 || l.GetYearZhiIndexByLiChun() != yDay%12 {
				fp := "yearByLiChun"
				if l.GetYear() > d.Y {
					fp = "yearByLiChun:lunar-year-ahead-of-civil-year"
				}
				w.Viol("C05:"+fp+":"+d.Ymd, fmt.Sprintf("year pillar by Lichun day at %s (lunar year %d): got %s, reference %s", where, l.GetYear(), l.GetYearInGanZhiByLiChun(), gz(yDay)), where)
			}
			if l.GetYearGanIndexExact() != yEx%10 || l.GetYearZhiIndexExact() != yEx%12 {
				fp := "yearExact"
				if l.GetYear() > d.Y {
					fp = "yearExact:lunar-year-ahead-of-civil-year"
				}
				w.Viol("C05:"+fp+":"+d.Ymd, fmt.Sprintf("exact year pillar at %s (lunar year %d): got %s, reference %s", where, l.GetYear(), l.GetYearInGanZhiExact(), gz(yEx)), where)
			}
			// --- month pillar: count of Jie passed (table entries with even index)
			cntDay, cntEx := 0, 0
			for _, tm := range terms {
				if tm.Idx%2 != 0 {
					continue
				}
				if tm.J <= d.J {
					cntDay++
				}
				if tm.inst() <= now {
					cntEx++
				}
				if tm.J == d.J {
					nontriv = true
				}
			}
			gY := mod(d.Y-4, 10)
			refMonth := func(cnt int) (int, int) {
				p := cnt - 3
				return mod(2*gY+2+p, 10), mod(2+p, 12)
			}
			if g, z := refMonth(cntDay); l.GetMonthGanIndex() != g || l.GetMonthZhiIndex() != z {
				bad("month", fmt.Sprintf("%d/%d", l.GetMonthGanIndex(), l.GetMonthZhiIndex()), fmt.Sprintf("%d/%d", g, z))
			}
			if g, z := refMonth(cntEx); l.GetMonthGanIndexExact() != g || l.GetMonthZhiIndexExact() != z {
				bad("monthExact", fmt.Sprintf("%d/%d", l.GetMonthGanIndexExact(), l.GetMonthZhiIndexExact()), fmt.Sprintf("%d/%d", g, z))
			}
			// --- the same moment given as a time.Time with a sub-second part lies in the same second, slot, day and
			// term interval: its pillars are those of the integer route (moments one second before a change-over)
			if t.s == 59 || len(times) > nBase {
				ns := 500000000
				if d.J%2 == 1 {
					ns = 999999999
				}
				tt := time.Date(d.Y, time.Month(d.M), d.D, t.h, t.m, t.s, ns, tzOf(d.J/2+t.h))
				if tt.Year() == d.Y && int(tt.Month()) == d.M && tt.Day() == d.D {
					var lt *calendar.Lunar
					if msg, p := try(func() { lt = calendar.NewLunarFromDate(tt) }); p {
						bad("NewLunarFromDate:panic", msg, "a lunar date")
					} else if a, b := pillarSig(lt), pillarSig(l); a != b {
						bad(fmt.Sprintf("NewLunarFromDate(+%dns)", ns), a, b)
					}
					w.R.Evals++
				}
			}
			// --- string forms are valid pairs and agree with the index forms
			strs := []struct {
				name string
				s    string
				g, z int
			}{
				{"GetYearInGanZhi", l.GetYearInGanZhi(), l.GetYearGanIndex(), l.GetYearZhiIndex()},
				{"GetYearInGanZhiByLiChun", l.GetYearInGanZhiByLiChun(), l.GetYearGanIndexByLiChun(), l.GetYearZhiIndexByLiChun()},
				{"GetYearInGanZhiExact", l.GetYearInGanZhiExact(), l.GetYearGanIndexExact(), l.GetYearZhiIndexExact()},
				{"GetMonthInGanZhi", l.GetMonthInGanZhi(), l.GetMonthGanIndex(), l.GetMonthZhiIndex()},
				{"GetMonthInGanZhiExact", l.GetMonthInGanZhiExact(), l.GetMonthGanIndexExact(), l.GetMonthZhiIndexExact()},
				{"GetDayInGanZhi", l.GetDayInGanZhi(), l.GetDayGanIndex(), l.GetDayZhiIndex()},
				{"GetDayInGanZhiExact", l.GetDayInGanZhiExact(), l.GetDayGanIndexExact(), l.GetDayZhiIndexExact()},
				{"GetDayInGanZhiExact2", l.GetDayInGanZhiExact2(), l.GetDayGanIndexExact2(), l.GetDayZhiIndexExact2()},
				{"GetTimeInGanZhi", l.GetTimeInGanZhi(), l.GetTimeGanIndex(), l.GetTimeZhiIndex()},
			}
			for _, x := range strs {
				if x.g < 0 || x.g > 9 || x.z < 0 || x.z > 11 || !inJiaZi(x.s) || x.s != ganS[x.g]+zhiS[x.z] {
					bad("string:"+x.name, x.s, fmt.Sprintf("indices %d/%d", x.g, x.z))
				}
			}
			// --- eight characters under both sects
			ec := l.GetEightChar()
			for _, sect := range []int{1, 2} {
				ec.SetSect(sect)
				wantDay := l.GetDayInGanZhiExact()
				if sect == 2 {
					wantDay = l.GetDayInGanZhiExact2()
				}
				if ec.GetYear() != l.GetYearInGanZhiExact() || ec.GetMonth() != l.GetMonthInGanZhiExact() || ec.GetDay() != wantDay || ec.GetTime() != l.GetTimeInGanZhi() ||
					ec.GetDayGan()+ec.GetDayZhi() != wantDay || ec.GetYearGan()+ec.GetYearZhi() != ec.GetYear() || ec.GetMonthGan()+ec.GetMonthZhi() != ec.GetMonth() || ec.GetTimeGan()+ec.GetTimeZhi() != ec.GetTime() {
					bad(fmt.Sprintf("eightchar:sect%d", sect), ec.String(), l.GetYearInGanZhiExact()+" "+l.GetMonthInGanZhiExact()+" "+wantDay+" "+l.GetTimeInGanZhi())
				}
			}
			ec.SetSect(2)
			if nontriv {
				w.R.Nontrivial++
			}
			w.R.Traces++
		}
		w.R.Transitions += int64(len(times))
		if prev == nil {
			w.Sample(map[string]interface{}{"day": d.Ymd, "day_pillar": gz(dayIdx), "lichun": lichun.S.ToYmdHms(), "moments": len(times)})
		}
	})
}
