module verifmc

go 1.23

require github.com/6tail/lunar-go v0.0.0

replace github.com/6tail/lunar-go => /repo
