package main

// C16 — nine stars. Engine E1; reference R4 = the classical step rules of the property evaluated
// on the library's own term days and integer day numbers.

import (
	"fmt"
	"strings"

	"github.com/6tail/lunar-go/calendar"
)

func init() {
	register(&Check{
		ID:            "C16",
		Rule:          "every civil day in the year set (thorough: all days 1..9998): year and month star under conventions 1,2,3 at [00:00:00, every term instant of the day -1s and +0s, 12:00:00, 23:59:59] with the step rule checked on every consecutive pair of moments (also across days); day star against the nearest-jiazi anchors of both solstices; hour star of Lunar and of LunarTime on all 13 slot entries; naming getters for all nine indices. non-trivial = moments where a year/month pillar changes, days within 30 days of a day-star anchor, and all hour-star states",
		Assume:        []string{"term days/instants are the library's own", "anchor: the pillar year 2024 has star three (index 2), so pillar year Y has index (2-(Y-2024)) mod 9", "at a 30-day tie either jiazi day is accepted as the anchor; at 23:xx either the current or the next day's branch group is accepted for the hour star"},
		Shards:        func(tier string, seed int64) []Shard { return yearShards(tier, seed, 9998, "") },
		Run:           runC16,
		MinNontrivial: 100,
	})
}

type solst struct{ winterPrev, summer, winter int } // JDN of solstice days: Dec of y-1, Jun of y, Dec of y

var solstCache = map[int]solst{}

func solsticesOf(y int, l *calendar.Lunar) solst {
	if s, ok := solstCache[y]; ok {
		return s
	}
	if l == nil {
		l = calendar.NewSolarFromYmd(y, 7, 1).GetLunar()
	}
	tb := l.GetJieQiTable()
	j := func(k string) int { s := tb[k]; return r1JDN(s.GetYear(), s.GetMonth(), s.GetDay()) }
	s := solst{j("冬至"), j("夏至"), j("DONG_ZHI")}
	solstCache[y] = s
	return s
}

// nearest jiazi days to j (one, or two at a 30-day tie)
func nearestJiaZi(j int) []int {
	k := r2DayIndex(j)
	switch {
	case k < 30:
		return []int{j - k}
	case k > 30:
		return []int{j + 60 - k}
	}
	return []int{j - 30, j + 30}
}

func c16MonthObjects(w *W, y int) {
	reform := func(yy int) bool { return (yy >= 7 && yy <= 24) || (yy >= 235 && yy <= 241) }
	var items []*calendar.LunarMonth
	if msg, p := try(func() {
		for e := calendar.NewLunarYear(y).GetMonths().Front(); e != nil; e = e.Next() {
			items = append(items, e.Value.(*calendar.LunarMonth))
		}
	}); p {
		w.Viol(fmt.Sprintf("C16:monthObjects:panic:%d", y), msg, y)
		return
	}
	star := func(m *calendar.LunarMonth) int { return m.GetNineStar().GetIndex() }
	for i, it := range items {
		yy, mm := it.GetYear(), it.GetMonth()
		w.R.Evals++
		var direct, viaPrev, viaNext *calendar.LunarMonth
		if msg, p := try(func() {
			direct = calendar.NewLunarMonthFromYm(yy, mm)
			if i > 0 {
				viaPrev = items[i-1].Next(1)
			}
			if i+1 < len(items) {
				viaNext = items[i+1].Next(-1)
			}
		}); p {
			w.Viol(fmt.Sprintf("C16:monthObjects:panic:%d/%d", yy, mm), msg, []int{yy, mm})
			continue
		}
		if direct == nil {
			continue
		}
		want := star(direct)
		if want < 0 || want > 8 {
			w.Viol(fmt.Sprintf("C16:monthObject:range:%d/%d", yy, mm), fmt.Sprintf("month star index %d", want), []int{yy, mm})
		}
		for name, o := range map[string]*calendar.LunarMonth{"item of the month list of year " + fmt.Sprint(y): it, "previous month.Next(1)": viaPrev, "next month.Next(-1)": viaNext} {
			if o == nil || o.GetYear() != yy || o.GetMonth() != mm {
				continue // a walk that lands elsewhere is C06's business
			}
			w.R.Transitions++
			if g := star(o); g != want {
				w.Viol(fmt.Sprintf("C16:monthObject:route:%d/%d", yy, mm), fmt.Sprintf("lunar month %d/%d: star index %d when built directly, %d as %s", yy, mm, want, g, name), []int{yy, mm})
			}
		}
		if i > 0 && !reform(yy) && !reform(items[i-1].GetYear()) {
			pm := items[i-1].GetMonth()
			if pm < 0 {
				pm = -pm
			}
			am := mm
			if am < 0 {
				am = -am
			}
			if wantStep := mod(star(items[i-1])-mod(am-pm, 12), 9); star(it) != wantStep {
				w.Viol(fmt.Sprintf("C16:monthObject:step:%d/%d", yy, mm), fmt.Sprintf("month star of %d/%d is %d after %d for %d/%d: one step back per numbered month expected", yy, mm, star(it), star(items[i-1]), items[i-1].GetYear(), items[i-1].GetMonth()), []int{yy, mm})
			}
			w.R.Nontrivial++
		}
	}
	// year objects
	if y > 1 {
		var a, b int
		if msg, p := try(func() {
			a, b = calendar.NewLunarYear(y-1).GetNineStar().GetIndex(), calendar.NewLunarYear(y).GetNineStar().GetIndex()
		}); p {
			w.Viol(fmt.Sprintf("C16:yearObject:panic:%d", y), msg, y)
		} else if b != mod(a-1, 9) || b != mod(2026-y, 9) {
			w.Viol(fmt.Sprintf("C16:yearObject:%d", y), fmt.Sprintf("LunarYear star index %d for %d after %d for %d; one step back per year, anchored at 2024 = star three (index 2) gives %d", b, y, a, y-1, mod(2026-y, 9)), y)
		}
	}
}

func runC16(w *W) {
	perturbCache = true
	walkLunar = true
	// naming getters index the same star
	for i := 0; i < 9; i++ {
		ns := calendar.NewNineStar(i)
		if ns.GetIndex() != i || ns.GetNumber() != calendar.NUMBER[i] || ns.GetColor() != calendar.COLOR[i] || ns.GetWuXing() != calendar.WU_XING[i] || ns.GetPosition() != calendar.POSITION[i] ||
			ns.GetNameInBeiDou() != calendar.NAME_BEI_DOU[i] || ns.GetNameInXuanKong() != calendar.NAME_XUAN_KONG[i] || ns.GetNameInQiMen() != calendar.NAME_QI_MEN[i] || ns.GetNameInTaiYi() != calendar.NAME_TAI_YI[i] ||
			ns.GetLuckInQiMen() != calendar.LUCK_QI_MEN[i] || ns.GetLuckInXuanKong() != calendar.LUCK_XUAN_KONG[i] || ns.GetYinYangInQiMen() != calendar.YIN_YANG_QI_MEN[i] || ns.GetTypeInTaiYi() != calendar.TYPE_TAI_YI[i] ||
			ns.GetBaMenInQiMen() != calendar.BA_MEN_QI_MEN[i] || ns.GetSongInTaiYi() != calendar.SONG_TAI_YI[i] {
			w.Viol(fmt.Sprintf("C16:naming:%d", i), "naming getters do not all index the same star", i)
		}
	}
	// the naming systems against the classical Luoshu correspondences (written here from the literature, not read
	// from the library): number, colour, element, palace and Big-Dipper name of stars one..nine; and each Tai Yi verse
	// mentions the Tai Yi name of its own star
	{
		num := []string{"一", "二", "三", "四", "五", "六", "七", "八", "九"}
		col := []string{"白", "黑", "碧", "绿", "黄", "白", "赤", "白", "紫"}
		wx := []string{"水", "土", "木", "木", "土", "金", "金", "土", "火"}
		pos := []string{"坎", "坤", "震", "巽", "中", "乾", "兑", "艮", "离"}
		dou := []string{"天枢", "天璇", "天玑", "天权", "玉衡", "开阳", "摇光", "洞明", "隐元"}
		for i := 0; i < 9; i++ {
			ns := calendar.NewNineStar(i)
			if ns.GetNumber() != num[i] || ns.GetColor() != col[i] || ns.GetWuXing() != wx[i] || ns.GetPosition() != pos[i] || ns.GetNameInBeiDou() != dou[i] ||
				!strings.Contains(ns.GetSongInTaiYi(), ns.GetNameInTaiYi()) || ns.String() != num[i]+col[i]+wx[i]+dou[i] {
				w.Viol(fmt.Sprintf("C16:naming:classical:%d", i), fmt.Sprintf("star %d is named %s / %s / %s / %s / %s (prints %s), Tai Yi %s with verse %q; the classical correspondences are %s%s%s, palace %s, %s, and the verse names its own star",
					i+1, ns.GetNumber(), ns.GetColor(), ns.GetWuXing(), ns.GetPosition(), ns.GetNameInBeiDou(), ns.String(), ns.GetNameInTaiYi(), clip(ns.GetSongInTaiYi()), num[i], col[i], wx[i], pos[i], dou[i]), i)
			}
		}
	}
	// month and year *objects*: the star of a lunar-month object is that of its (year, month) however the object
	// was reached (directly, as an item of its own or a neighbouring year's month list, by Next from a neighbour), and
	// along the numbered months it steps back by one per month (a leap month repeats its number's star), across
	// New Year too; the year object's star steps back by one per year
	for _, r := range w.Shard.Ranges {
		for y := r[0]; y <= r[1]; y++ {
			c16MonthObjects(w, y)
		}
	}
	type snap struct {
		ok          bool
		yearPillar  [4]int // by sect
		monthBranch [4]int
		yearStar    [4]int
		monthStar   [4]int
		where       string
	}
	var last snap
	sweepDays(w, "C16", func(d *Day, prev *Day) {
		if prev == nil {
			last = snap{}
		}
		l0 := d.L()
		terms := termsOf(l0)
		moments := []hms{{0, 0, 0}}
		var lichun *Term
		for i, t := range terms {
			if (t.Key == "立春" || t.Key == "LI_CHUN") && t.S.GetYear() == d.Y {
				lichun = &terms[i]
			}
			if t.J == d.J && t.Idx%2 == 0 {
				if t.Sec > 0 {
					moments = append(moments, hms{(t.Sec - 1) / 3600, (t.Sec - 1) / 60 % 60, (t.Sec - 1) % 60})
				}
				moments = append(moments, hms{t.Sec / 3600, t.Sec / 60 % 60, t.Sec % 60})
			}
		}
		moments = append(moments, hms{12, 0, 0}, hms{23, 59, 59})
		// moments must be in chronological order for the edge rule
		for i := 1; i < len(moments); i++ {
			for k := i; k > 0 && (moments[k].h*3600+moments[k].m*60+moments[k].s) < (moments[k-1].h*3600+moments[k-1].m*60+moments[k-1].s); k-- {
				moments[k], moments[k-1] = moments[k-1], moments[k]
			}
		}
		for _, t := range moments {
			l := lunarP(d.At(t.h, t.m, t.s), d.J)
			w.R.Evals++
			var cur snap
			cur.ok = true
			cur.where = fmt.Sprintf("%s %02d:%02d:%02d", d.Ymd, t.h, t.m, t.s)
			now := int64(d.J)*86400 + int64(t.h*3600+t.m*60+t.s)
			for sect := 1; sect <= 3; sect++ {
				var yp, mb, py int
				switch sect {
				case 1:
					yp, mb, py = gzIndex(l.GetYearGanIndex(), l.GetYearZhiIndex()), l.GetMonthZhiIndex(), l.GetYear()
				case 2:
					yp, mb, py = gzIndex(l.GetYearGanIndexByLiChun(), l.GetYearZhiIndexByLiChun()), l.GetMonthZhiIndex(), d.Y
					if lichun != nil && d.J < lichun.J {
						py--
					}
				case 3:
					yp, mb, py = gzIndex(l.GetYearGanIndexExact(), l.GetYearZhiIndexExact()), l.GetMonthZhiIndexExact(), d.Y
					if lichun != nil && now < lichun.inst() {
						py--
					}
				}
				ys := l.GetYearNineStarBySect(sect).GetIndex()
				ms := l.GetMonthNineStarBySect(sect).GetIndex()
				cur.yearPillar[sect], cur.monthBranch[sect], cur.yearStar[sect], cur.monthStar[sect] = yp, mb, ys, ms
				if ys < 0 || ys > 8 || ms < 0 || ms > 8 {
					w.Viol("C16:range:"+d.Ymd, fmt.Sprintf("star index out of range at %s sect %d: year %d month %d", cur.where, sect, ys, ms), cur.where)
				}
				// anchor
				if want := mod(2-(py-2024), 9); ys != want {
					w.Viol(fmt.Sprintf("C16:yearStar:sect%d:%s", sect, d.Ymd), fmt.Sprintf("year star at %s under convention %d is %d, reference %d (pillar year %d; 2024 = index 2, -1 per year)", cur.where, sect, ys+1, want+1, py), cur.where)
				}
				if sect == 2 {
					if l.GetYearNineStar().GetIndex() != ys || l.GetMonthNineStar().GetIndex() != ms {
						w.Viol("C16:default-sect:"+d.Ymd, "GetYearNineStar/GetMonthNineStar differ from BySect(2)", cur.where)
					}
				}
				// class predicate for convention 1: the year branch (changing at lunar New Year) is out of step with the
				// Jie-based month branch on this edge: the convention-1 year pillar changes here, or differs from the by-Lichun one
				sect1OutOfStep := false
				if sect == 1 && last.ok {
					byLiChun := gzIndex(l.GetYearGanIndexByLiChun(), l.GetYearZhiIndexByLiChun())
					sect1OutOfStep = last.yearPillar[1] != yp || yp != byLiChun || last.yearPillar[1] != last.yearPillar[0]
				}
				// step rules along the edge from the previous moment
				if last.ok {
					w.R.Transitions++
					w.R.Traces++
					if last.yearPillar[sect] == yp {
						if last.yearStar[sect] != ys {
							w.Viol(fmt.Sprintf("C16:yearStar:edge:sect%d:%s", sect, d.Ymd), fmt.Sprintf("year star changes %d->%d between %s and %s although the year pillar (convention %d) does not", last.yearStar[sect]+1, ys+1, last.where, cur.where, sect), cur.where)
						}
					} else {
						w.R.Nontrivial++
						if mod(last.yearStar[sect]-1, 9) != ys {
							w.Viol(fmt.Sprintf("C16:yearStar:edge:sect%d:%s", sect, d.Ymd), fmt.Sprintf("year star goes %d->%d at the year-pillar change between %s and %s (convention %d)", last.yearStar[sect]+1, ys+1, last.where, cur.where, sect), cur.where)
						}
					}
					if last.monthBranch[sect] == mb {
						if last.monthStar[sect] != ms {
							fp := fmt.Sprintf("C16:monthStar:edge:sect%d:%s", sect, d.Ymd)
							if sect == 1 && sect1OutOfStep {
								fp = "C16:monthStar:sect1:year-branch-by-lunar-new-year-out-of-step-with-jie-months"
							}
							w.Viol(fp, fmt.Sprintf("month star changes %d->%d between %s and %s although no Jie was passed (convention %d)", last.monthStar[sect]+1, ms+1, last.where, cur.where, sect), cur.where)
						}
					} else {
						w.R.Nontrivial++
						if mod(last.monthStar[sect]-1, 9) != ms {
							fp := fmt.Sprintf("C16:monthStar:edge:sect%d:%s", sect, d.Ymd)
							if sect == 1 && sect1OutOfStep {
								fp = "C16:monthStar:sect1:year-branch-by-lunar-new-year-out-of-step-with-jie-months"
							}
							w.Viol(fp, fmt.Sprintf("month star goes %d->%d at the Jie between %s and %s (convention %d), expected one step back", last.monthStar[sect]+1, ms+1, last.where, cur.where, sect), cur.where)
						}
					}
				}
			}
			cur.yearPillar[0] = gzIndex(l.GetYearGanIndexByLiChun(), l.GetYearZhiIndexByLiChun())
			last = cur
		}
		// LunarYear star = convention 1
		if ly := calendar.NewLunarYear(l0.GetYear()).GetNineStar().GetIndex(); ly != l0.GetYearNineStarBySect(1).GetIndex() {
			w.Viol("C16:LunarYear.GetNineStar:"+d.Ymd, "LunarYear star differs from the lunar date's convention-1 year star", d.Ymd)
		}
		// ---- day star
		so := solsticesOf(d.Y, l0)
		var anchors [][2]int // (jdn, kind) kind 0 = winter (ascending), 1 = summer (descending)
		add := func(j, kind int) {
			for _, a := range nearestJiaZi(j) {
				anchors = append(anchors, [2]int{a, kind})
			}
		}
		if d.Y > 1 {
			sp := solsticesOf(d.Y-1, nil)
			add(sp.summer, 1)
		}
		add(so.winterPrev, 0)
		add(so.summer, 1)
		add(so.winter, 0)
		got := l0.GetDayNineStar().GetIndex()
		// acceptable values: for each consistent choice at ties, the latest anchor <= D governs
		okStar := false
		var wantList []int
		var govKind, govJ int
		classAny := false
		// enumerate tie choices: at most 2^4, handled by trying every anchor set where per solstice one choice is made
		groups := [][]int{}
		srcs := []int{}
		if d.Y > 1 {
			srcs = append(srcs, solsticesOf(d.Y-1, nil).summer)
		}
		srcs = append(srcs, so.winterPrev, so.summer, so.winter)
		kinds := []int{1, 0, 1, 0}
		if d.Y == 1 {
			kinds = []int{0, 1, 0}
		}
		for _, sj := range srcs {
			groups = append(groups, nearestJiaZi(sj))
		}
		var rec func(i int, chosen [][2]int)
		rec = func(i int, chosen [][2]int) {
			if i == len(groups) {
				best := -1
				for k, c := range chosen {
					if c[0] <= d.J && (best < 0 || c[0] > chosen[best][0]) {
						best = k
					}
				}
				if best < 0 {
					return
				}
				var want int
				if chosen[best][1] == 0 {
					want = (d.J - chosen[best][0]) % 9
				} else {
					want = 8 - (d.J-chosen[best][0])%9
				}
				wantList = append(wantList, want)
				govKind, govJ = chosen[best][1], chosen[best][0]
				if want == got {
					okStar = true
				} else {
					wi := len(chosen) - 3 // position of the December(y-1) winter anchor
					if chosen[best][1] == 1 && d.J < chosen[wi][0] && d.M <= 2 && (chosen[wi][0]-chosen[best][0])%9 != 0 {
						classAny = true
					}
				}
				return
			}
			for _, a := range groups[i] {
				rec(i+1, append(chosen, [2]int{a, kinds[i]}))
			}
		}
		rec(0, nil)
		if len(wantList) > 0 {
			if d.J-govJ < 30 {
				w.R.Nontrivial++
			}
			if !okStar {
				fp := "C16:dayStar:" + d.Ymd
				// class: day lies before the winter anchor of its (Dec y-1) solstice, governed by the previous summer anchor, spans not 180
				if classAny {
					fp = "C16:dayStar:before-winter-anchor-when-summer-to-winter-anchor-span-is-not-a-multiple-of-9"
				}
				w.Viol(fp, fmt.Sprintf("day star on %s is %d, reference %v (governing anchor %s, %s)", d.Ymd, got+1, plus1(wantList), r1Ymd(govJ), map[int]string{0: "winter: count up from one", 1: "summer: count down from nine"}[govKind]), d.Ymd)
			}
		}
		// ---- hour star on the 13 slot entries
		asc := (d.J >= so.winterPrev && d.J < so.summer) || d.J >= so.winter
		for k := 0; k <= 12; k++ {
			h := 0
			if k > 0 {
				h = 2*k - 1
			}
			l := lunarP(d.At(h, 0, 0), d.J)
			slot := ((h + 1) / 2) % 12
			refFor := func(branch int) int {
				var start int
				switch branch % 3 {
				case 0: // zi wu mao you
					start = map[bool]int{true: 0, false: 8}[asc]
				case 1: // chou chen wei xu
					start = map[bool]int{true: 3, false: 5}[asc]
				default: // yin shen si hai
					start = map[bool]int{true: 6, false: 2}[asc]
				}
				if asc {
					return mod(start+slot, 9)
				}
				return mod(start-slot, 9)
			}
			db := r2DayIndex(d.J) % 12
			accept := []int{refFor(db)}
			if h == 23 {
				accept = append(accept, refFor((db+1)%12))
			}
			w.R.Evals += 2
			w.R.Nontrivial++
			g1 := l.GetTimeNineStar().GetIndex()
			if h == 23 || k == d.J%12 {
				// the hour star is fixed by the day branch's group, the half-year and the slot: it has no day-boundary option, so
				// switching the option of the date's eight-character object leaves it where it was
				ec := l.GetEightChar()
				s0 := ec.GetSect()
				ec.SetSect(3 - s0)
				g2 := l.GetTimeNineStar().GetIndex()
				g3 := l.GetTime().GetNineStar().GetIndex()
				ec.SetSect(s0)
				if g2 != g1 || g3 != l.GetTime().GetNineStar().GetIndex() {
					w.Viol("C16:hourStar:depends-on-chart-option:"+d.Ymd, fmt.Sprintf("hour star at %s %02d:00 is %d with the eight-character convention %d and %d with convention %d", d.Ymd, h, g1+1, s0, g2+1, 3-s0), d.Ymd)
				}
			}
			if !intIn(accept, g1) {
				w.Viol("C16:Lunar.GetTimeNineStar:"+d.Ymd, fmt.Sprintf("hour star at %s %02d:00 is %d, reference %v (ascending half=%v, day branch %s, slot %d)", d.Ymd, h, g1+1, plus1(accept), asc, zhiS[db], slot), d.Ymd)
			}
			g2 := l.GetTime().GetNineStar().GetIndex()
			if !intIn(accept, g2) {
				fp := "C16:LunarTime.GetNineStar:" + d.Ymd
				if d.J >= so.winter {
					fp = "C16:LunarTime.GetNineStar:after-december-solstice"
				}
				w.ViolT(fp, fmt.Sprintf("LunarTime hour star at %s %02d:00 is %d, reference %v (ascending half=%v, day branch %s, slot %d)", d.Ymd, h, g2+1, plus1(accept), asc, zhiS[db], slot), d.Ymd,
					fmt.Sprintf("func TestReplay(t *testing.T) { l := calendar.NewSolar(%d,%d,%d,%d,0,0).GetLunar(); if l.GetTime().GetNineStar().GetIndex() != l.GetTimeNineStar().GetIndex() { t.Fatal() } }", d.Y, d.M, d.D, h))
			}
		}
		if d.M == 2 && d.D == 4 && d.Y%100 == 24 {
			w.Sample(map[string]interface{}{"day": d.Ymd, "year_star_by_sect": []int{last.yearStar[1] + 1, last.yearStar[2] + 1, last.yearStar[3] + 1}, "day_star": got + 1, "moments": len(moments)})
		}
	})
}

func intIn(a []int, x int) bool {
	for _, v := range a {
		if v == x {
			return true
		}
	}
	return false
}
func plus1(a []int) []int {
	b := make([]int, len(a))
	for i, v := range a {
		b[i] = v + 1
	}
	return b
}
