package main

import (
	"encoding/json"
	"fmt"
	"os"
	_ "time/tzdata" // the time-zone database is embedded: worker time zones do not depend on the host's files
)

func main() {
	if len(os.Args) < 2 {
		fmt.Fprintln(os.Stderr, "usage: lunarmc check <Cnn> [quick|thorough] | worker <Cnn> <shard-json> | replay <file> | list")
		os.Exit(2)
	}
	switch os.Args[1] {
	case "list":
		for id := range registry {
			fmt.Println(id)
		}
	case "check":
		tier := "quick"
		if len(os.Args) > 3 {
			tier = os.Args[3]
		}
		if t := os.Getenv("VERIF_TIER"); t != "" && len(os.Args) <= 3 {
			tier = t
		}
		os.Exit(runParent(os.Args[2], tier, nil))
	case "racepass":
		reps := 20
		fmt.Sscanf(os.Args[2], "%d", &reps)
		tier := "quick"
		if len(os.Args) > 3 {
			tier = os.Args[3]
		}
		partOf := "0/1"
		if len(os.Args) > 4 {
			partOf = os.Args[4]
		}
		racePassMain(reps, tier, partOf)
	case "worker":
		os.Exit(runWorker(os.Args[2], os.Args[3]))
	case "replay":
		b, err := os.ReadFile(os.Args[2])
		if err != nil {
			fmt.Fprintln(os.Stderr, err)
			os.Exit(2)
		}
		var rf struct {
			Property    string `json:"property"`
			Fingerprint string `json:"fingerprint"`
			Tier        string `json:"tier"`
			Seed        int64  `json:"seed"`
			Message     string `json:"message"`
		}
		if err := json.Unmarshal(b, &rf); err != nil {
			fmt.Fprintln(os.Stderr, err)
			os.Exit(2)
		}
		fmt.Printf("replaying %s (%s): %s\n", rf.Property, rf.Fingerprint, rf.Message)
		os.Setenv("VERIF_SEED", fmt.Sprint(rf.Seed))
		os.Setenv("VERIF_REPLAY_FP", rf.Fingerprint)
		os.Exit(runParent(rf.Property, rf.Tier, nil))
	default:
		fmt.Fprintln(os.Stderr, "unknown command")
		os.Exit(2)
	}
}
