package main

// C12 — fortune periods chain contiguously and match pillars and calendar years. Engine E1 over
// birth moments; reference R4 (decode-and-compare for the start offset, mod-60 arithmetic for pillars).

import (
	"fmt"
	"math"

	"github.com/6tail/lunar-go/LunarUtil"
	"github.com/6tail/lunar-go/calendar"
)

func c12Years(tier string, seed int64) []int {
	base := []int{1, 18, 237, 1582, 1600, 1899, 1900, 1984, 2000, 2019, 2020, 2023, 2024, 2033, 2100, 3000, 5000, 9000, 9800}
	in := map[int]bool{}
	for _, y := range base {
		in[y] = true
	}
	in[int(1000+((seed%7000)+7000)%7000)] = true
	if tier == "thorough" {
		for y := 1; y <= 9800; y++ {
			if y%31 == int(((seed%31)+31)%31) {
				in[y] = true
			}
		}
		for y := 1890; y <= 2060; y += 2 {
			in[y] = true
		}
	}
	var ys []int
	for y := range in {
		ys = append(ys, y)
	}
	sortInts(ys)
	return ys
}

func sortInts(a []int) {
	for i := 1; i < len(a); i++ {
		for k := i; k > 0 && a[k] < a[k-1]; k-- {
			a[k], a[k-1] = a[k-1], a[k]
		}
	}
}

func init() {
	register(&Check{
		ID:     "C12",
		Rule:   "birth moments: every day of the birth-year set (quick 20 years, thorough ~400 years: stride-31 years over 1..9800 plus every other year 1890..2060) at 00:30 and 23:30, plus {t-2h, t-1s, t, t+1s, t+2h} around every Jie instant of those years; x gender {0,1} x start-offset school {1,2}; all 10 great periods (25 via GetDaYunBy(25) for the rotating full configuration, plus GetLiuNianBy(130)/GetXiaoYunBy(130) on one period); all annual and minor fortunes of one (gender, school) configuration per birth (rotating) and the first of each period for the others; monthly fortunes of the first year of every period; plus, per birth year, all 72 ordered pairs of a 9-chart alphabet (same lunar year / other civil year, same civil year / other lunar year, same day / other time, next day, 60 years apart) evaluated back to back. non-trivial = births within 2 h of a Jie instant or at 23:30, and configurations whose direction is backward",
		Assume: []string{"school-1 offset is judged to within 2 two-hour slots (a distance between two slot-quantised moments is ambiguous by one slot at each end; the statement does not fix slot indexing); school-2 offset to within 1 minute", "male = gender 1; yang year = even exact year stem"},
		Shards: func(tier string, seed int64) []Shard {
			ys := c12Years(tier, seed)
			var out []Shard
			for _, y := range ys {
				out = append(out, Shard{Ranges: [][2]int{{y, y}}, Tier: tier, Seed: seed})
			}
			return out
		},
		Run:           runC12,
		MinNontrivial: 100,
	})
}

func solarInst(s *calendar.Solar) int64 {
	return int64(r1JDN(s.GetYear(), s.GetMonth(), s.GetDay()))*86400 + int64(s.GetHour()*3600+s.GetMinute()*60+s.GetSecond())
}

func runC12(w *W) {
	sweepDays(w, "C12", func(d *Day, prev *Day) {
		times := []hms{{0, 30, 0}, {23, 30, 0}}
		for _, t := range termsOf(d.L()) {
			if t.Idx%2 == 0 {
				for _, off := range []int{-7200, -1, 0, 1, 7200} {
					x := t.inst() + int64(off)
					if x/86400 == int64(d.J) {
						sec := int(x % 86400)
						times = append(times, hms{sec / 3600, sec / 60 % 60, sec % 60})
					}
				}
			}
		}
		for ti, t := range times {
			c12Birth(w, d, t, ti)
		}
	})
	// chart histories: every ordered pair (A, then B) of a small chart alphabet around each birth year is evaluated
	// back to back against the same reference, so that B is also seen directly after a chart that shares its lunar
	// year but not its civil year, its civil year but not its lunar year, its day but not its time, or its year pillar
	// (60 years apart) — whatever the library remembers from A must not leak into B
	for _, r := range w.Shard.Ranges {
		for y := r[0]; y <= r[1]; y++ {
			type chart struct {
				y, m, d int
				t       hms
			}
			alpha := []chart{{y, 1, 10, hms{0, 30, 0}}, {y, 6, 15, hms{0, 30, 0}}, {y, 6, 15, hms{23, 30, 0}}, {y, 6, 16, hms{0, 30, 0}}, {y, 12, 31, hms{23, 30, 0}},
				{y + 1, 1, 1, hms{0, 30, 0}}, {y + 1, 1, 10, hms{0, 30, 0}}, {y + 1, 6, 15, hms{0, 30, 0}}, {y + 60, 6, 15, hms{0, 30, 0}}}
			days := make([]*Day, len(alpha))
			for i, c := range alpha {
				if c.y > 9990 {
					continue
				}
				dd := &Day{J: r1JDN(c.y, c.m, c.d), Y: c.y, M: c.m, D: c.d, Ymd: fmt.Sprintf("%04d-%02d-%02d", c.y, c.m, c.d)}
				dd.S = calendar.NewSolarFromYmd(c.y, c.m, c.d)
				days[i] = dd
			}
			for a := range alpha {
				for b := range alpha {
					if a == b || days[a] == nil || days[b] == nil {
						continue
					}
					if msg, p := try(func() {
						c12Birth(w, days[a], alpha[a].t, a)
						c12Birth(w, days[b], alpha[b].t, b)
					}); p {
						w.Viol("C12:pairs:panic:"+panicSite(msg), fmt.Sprintf("panic while evaluating charts %s then %s: %s", days[a].Ymd, days[b].Ymd, msg), days[b].Ymd)
					}
					w.R.Transitions++
				}
			}
		}
	}
}

func c12Birth(w *W, d *Day, t hms, ti int) {
	birth := d.At(t.h, t.m, t.s)
	l := birth.GetLunar()
	ec := l.GetEightChar()
	// the chart's day-boundary convention rotates; fortune direction, start offset and periods do not depend on it
	ec.SetSect(1 + (d.J+ti)%2)
	where := birth.ToYmdHms()
	yang := l.GetYearGanIndexExact()%2 == 0
	monthIdx := gzIndex(l.GetMonthGanIndexExact(), l.GetMonthZhiIndexExact())
	hourIdx := gzIndex(l.GetTimeGanIndex(), l.GetTimeZhiIndex())
	prevJ, nextJ := l.GetPrevJie(), l.GetNextJie()
	if prevJ == nil || nextJ == nil {
		w.Viol("C12:no-jie:"+d.Ymd, "no previous/next Jie for "+where, where)
		return
	}
	nearJie := false
	if solarInst(nextJ.GetSolar())-solarInst(birth) <= 7200 || solarInst(birth)-solarInst(prevJ.GetSolar()) <= 7200 {
		nearJie = true
	}
	fullCfg := (d.J + ti) % 4
	for g := 0; g <= 1; g++ {
		for school := 1; school <= 2; school++ {
			ctx := fmt.Sprintf("%s gender=%d school=%d", where, g, school)
			var yun *calendar.Yun
			if msg, p := try(func() { yun = ec.GetYunBySect(g, school) }); p {
				w.Viol("C12:GetYunBySect:panic:"+d.Ymd, msg+" on "+ctx, ctx)
				continue
			}
			w.R.States++
			w.R.Evals++
			wantFwd := (yang && g == 1) || (!yang && g == 0)
			if yun.IsForward() != wantFwd {
				w.Viol("C12:direction:"+d.Ymd, fmt.Sprintf("%s: forward=%v, rule says %v (exact year stem %s)", ctx, yun.IsForward(), wantFwd, l.GetYearGanExact()), ctx)
				continue
			}
			if !wantFwd || nearJie || t.h == 23 {
				w.R.Nontrivial++
			}
			Y, M, D, H := yun.GetStartYear(), yun.GetStartMonth(), yun.GetStartDay(), yun.GetStartHour()
			if Y < 0 || M < 0 || M > 11 || D < 0 || D > 29 || H < 0 || H > 23 {
				w.Viol("C12:offset-range:"+d.Ymd, fmt.Sprintf("%s: start offset %dy %dm %dd %dh out of range", ctx, Y, M, D, H), ctx)
			}
			// true distance to the governing Jie
			var distSec int64
			if wantFwd {
				distSec = solarInst(nextJ.GetSolar()) - solarInst(birth)
			} else {
				distSec = solarInst(birth) - solarInst(prevJ.GetSolar())
			}
			if distSec < 0 {
				w.Viol("C12:jie-order:"+d.Ymd, ctx+": governing Jie on the wrong side of the birth moment", ctx)
				continue
			}
			if school == 2 {
				got := float64(Y*4320+M*360+D*12) + float64(H)/2
				if math.Abs(got-float64(distSec)/60) > 1.0+1e-9 || H%2 != 0 {
					w.Viol("C12:offset-school2:"+d.Ymd, fmt.Sprintf("%s: offset %dy %dm %dd %dh decodes to %.1f min, distance to the Jie is %.2f min", ctx, Y, M, D, H, got, float64(distSec)/60), ctx)
				}
			} else {
				got := float64((12*Y+M)*30+D) / 10
				if math.Abs(got-float64(distSec)/7200) >= 2.0 || (D != 0 && D != 10 && D != 20) || H != 0 {
					w.Viol("C12:offset-school1:"+d.Ymd, fmt.Sprintf("%s: offset %dy %dm %dd %dh decodes to %.1f slots, distance to the Jie is %.2f slots", ctx, Y, M, D, H, got, float64(distSec)/7200), ctx)
				}
			}
			// start date = birth + offset (years, months with clamping, days, hours)
			y1, m1, d1 := r1AddMonths(d.Y, d.M, d.D, 12*Y)
			y1, m1, d1 = r1AddMonths(y1, m1, d1, M)
			if y1 > 9800 {
				continue
			}
			tot := (r1JDN(y1, m1, d1)+D)*24 + t.h + H
			sj, sh := tot/24, tot%24
			sy, sm, sd := r1FromJDN(sj)
			var start *calendar.Solar
			if msg, p := try(func() { start = yun.GetStartSolar() }); p {
				w.Viol("C12:GetStartSolar:panic:"+d.Ymd, msg+" on "+ctx, ctx)
				continue
			}
			w.R.Transitions++
			w.R.Traces++
			// the statement fixes the offset, not the order in which years/months/days are added (month-end clamping can
			// shift the result by up to three days), so the start moment is judged to within 3 days; the period chain
			// below is judged against the year the library itself reports
			refInst := int64(sj)*86400 + int64(sh*3600+t.m*60+t.s)
			if diff := solarInst(start) - refInst; diff > 3*86400 || diff < -3*86400 {
				w.Viol("C12:GetStartSolar:"+d.Ymd, fmt.Sprintf("%s: start %s, birth + offset (%dy %dm %dd %dh) = %04d-%02d-%02d %02d", ctx, start.ToYmdHms(), Y, M, D, H, sy, sm, sd, sh), ctx)
			}
			sy = start.GetYear()
			// ---- great periods
			// the full configuration walks GetDaYunBy(25) (ages up to ~250) instead of the default ten periods: the chain
			// rules have no upper age; GetDaYun() must be its ten-period prefix
			full := (g*2 + school - 1) == fullCfg
			nPer := 10
			if full && d.Y+280 <= 9990 {
				nPer = 25
			}
			dys := yun.GetDaYun()
			if nPer > 10 {
				def := dys
				dys = yun.GetDaYunBy(nPer)
				if len(def) != 10 || len(dys) != nPer {
					w.Viol("C12:GetDaYunBy:len", fmt.Sprintf("%s: GetDaYun() has %d periods, GetDaYunBy(%d) has %d", ctx, len(def), nPer, len(dys)), ctx)
					continue
				}
				for i := range def {
					if def[i].GetStartYear() != dys[i].GetStartYear() || def[i].GetEndYear() != dys[i].GetEndYear() || def[i].GetGanZhi() != dys[i].GetGanZhi() || def[i].GetIndex() != dys[i].GetIndex() {
						w.Viol("C12:GetDaYunBy:prefix:"+d.Ymd, ctx+": GetDaYun() is not the ten-period prefix of GetDaYunBy(n)", ctx)
					}
				}
			}
			if len(dys) != nPer {
				w.Viol("C12:DaYun:len", fmt.Sprintf("%s: %d periods", ctx, len(dys)), ctx)
				continue
			}
			for i, dy := range dys {
				w.R.Evals++
				bad := func(what string, got, want interface{}) {
					w.Viol(fmt.Sprintf("C12:DaYun:%s:%s", what, d.Ymd), fmt.Sprintf("%s period %d: %s = %v, reference %v", ctx, i, what, got, want), ctx)
				}
				// the exported constructors build the same objects as the lists (periods 0..2 of every configuration)
				if i <= 2 {
					if msg, p := try(func() {
						y2 := calendar.NewYun(ec, g, school)
						c := calendar.NewDaYun(yun, i)
						c2 := calendar.NewDaYun(y2, i)
						for _, x := range []*calendar.DaYun{c, c2} {
							if x.GetStartYear() != dy.GetStartYear() || x.GetEndYear() != dy.GetEndYear() || x.GetStartAge() != dy.GetStartAge() || x.GetEndAge() != dy.GetEndAge() || x.GetGanZhi() != dy.GetGanZhi() || x.GetIndex() != dy.GetIndex() {
								bad("NewDaYun", fmt.Sprintf("%d..%d ages %d..%d %s", x.GetStartYear(), x.GetEndYear(), x.GetStartAge(), x.GetEndAge(), x.GetGanZhi()), fmt.Sprintf("list item %d..%d ages %d..%d %s", dy.GetStartYear(), dy.GetEndYear(), dy.GetStartAge(), dy.GetEndAge(), dy.GetGanZhi()))
							}
						}
						if lnL := dy.GetLiuNian(); len(lnL) > 0 {
							k := len(lnL) - 1
							a, b := calendar.NewLiuNian(c, k), lnL[k]
							if a.GetYear() != b.GetYear() || a.GetAge() != b.GetAge() || a.GetIndex() != b.GetIndex() || a.GetGanZhi() != b.GetGanZhi() {
								bad("NewLiuNian", fmt.Sprintf("%d age %d %s", a.GetYear(), a.GetAge(), a.GetGanZhi()), fmt.Sprintf("list item %d age %d %s", b.GetYear(), b.GetAge(), b.GetGanZhi()))
							}
							ma, mb := calendar.NewLiuYue(a, 11), b.GetLiuYue()[11]
							if ma.GetGanZhi() != mb.GetGanZhi() || ma.GetIndex() != mb.GetIndex() || ma.GetMonthInChinese() != mb.GetMonthInChinese() {
								bad("NewLiuYue", ma.GetGanZhi(), mb.GetGanZhi())
							}
							xa, xb := calendar.NewXiaoYun(c, k, yun.IsForward()), dy.GetXiaoYun()[k]
							if xa.GetYear() != xb.GetYear() || xa.GetAge() != xb.GetAge() || xa.GetIndex() != xb.GetIndex() || xa.GetGanZhi() != xb.GetGanZhi() {
								bad("NewXiaoYun", fmt.Sprintf("%d age %d %s", xa.GetYear(), xa.GetAge(), xa.GetGanZhi()), fmt.Sprintf("list item %d age %d %s", xb.GetYear(), xb.GetAge(), xb.GetGanZhi()))
							}
						}
					}); p {
						bad("constructors:panic", msg, "no panic")
					}
				}
				if dy.GetIndex() != i {
					bad("index", dy.GetIndex(), i)
				}
				if i == 0 {
					if dy.GetStartYear() != d.Y || dy.GetStartAge() != 1 || dy.GetEndYear() != sy-1 || dy.GetEndAge() != sy-d.Y {
						bad("period0", fmt.Sprintf("%d..%d ages %d..%d", dy.GetStartYear(), dy.GetEndYear(), dy.GetStartAge(), dy.GetEndAge()), fmt.Sprintf("%d..%d ages 1..%d", d.Y, sy-1, sy-d.Y))
					}
					if dy.GetGanZhi() != "" {
						bad("period0-pillar", dy.GetGanZhi(), "")
					}
				} else {
					ws := sy + (i-1)*10
					if dy.GetStartYear() != ws || dy.GetEndYear() != ws+9 || dy.GetStartAge() != ws-d.Y+1 || dy.GetEndAge() != ws-d.Y+10 {
						bad("span", fmt.Sprintf("%d..%d ages %d..%d", dy.GetStartYear(), dy.GetEndYear(), dy.GetStartAge(), dy.GetEndAge()), fmt.Sprintf("%d..%d ages %d..%d", ws, ws+9, ws-d.Y+1, ws-d.Y+10))
					}
					if dy.GetStartYear() != dys[i-1].GetEndYear()+1 || dy.GetStartAge() != dys[i-1].GetEndAge()+1 {
						bad("contiguity", dy.GetStartYear(), dys[i-1].GetEndYear()+1)
					}
					wantP := monthIdx + i
					if !wantFwd {
						wantP = monthIdx - i
					}
					if dy.GetGanZhi() != gz(wantP) {
						bad("pillar", dy.GetGanZhi(), gz(wantP))
					}
					if dy.GetXun() != LunarUtil.GetXun(gz(wantP)) || dy.GetXunKong() != LunarUtil.GetXunKong(gz(wantP)) {
						bad("xun", dy.GetXun(), LunarUtil.GetXun(gz(wantP)))
					}
				}
				// ---- annual, minor, monthly fortunes
				lns, xys := dy.GetLiuNian(), dy.GetXiaoYun()
				wantN := 10
				if i == 0 {
					wantN = dy.GetEndYear() - dy.GetStartYear() + 1
				}
				if nPer > 10 && i == 2 {
					// the ...By(n) lists of one period, far beyond its ten years: same rules, default lists are their prefix
					l2, x2 := dy.GetLiuNianBy(130), dy.GetXiaoYunBy(130)
					if len(l2) != 130 || len(x2) != 130 || len(lns) != 10 || len(xys) != 10 || l2[9].GetYear() != lns[9].GetYear() || x2[9].GetGanZhi() != xys[9].GetGanZhi() {
						bad("By(130)-prefix", fmt.Sprintf("%d/%d", len(l2), len(x2)), "130/130 extending the default lists")
						continue
					}
					lns, xys, wantN = l2, x2, 130
				}
				if len(lns) != wantN || len(xys) != wantN {
					bad("fortune-count", fmt.Sprintf("%d/%d", len(lns), len(xys)), wantN)
					continue
				}
				for k := range lns {
					if !full && k > 0 {
						break
					}
					ln, xy := lns[k], xys[k]
					yr := dy.GetStartYear() + k
					w.R.Evals += 2
					w.R.Transitions += 2
					if ln.GetYear() != yr || ln.GetAge() != yr-d.Y+1 || ln.GetIndex() != k {
						bad("LiuNian.year/age", fmt.Sprintf("%d/%d", ln.GetYear(), ln.GetAge()), fmt.Sprintf("%d/%d", yr, yr-d.Y+1))
					}
					// the annual pillar costs a lunar conversion: beyond the default ten periods / ten years it is read for
					// the first entry and every 40th only; ages, years and minor fortunes are checked on every entry
					if (i < 10 && k < 10) || k%40 == 0 {
						if ln.GetGanZhi() != gz(mod(yr-4, 60)) {
							bad("LiuNian.pillar", fmt.Sprintf("%d:%s", yr, ln.GetGanZhi()), gz(mod(yr-4, 60)))
						}
					}
					if xy.GetYear() != yr || xy.GetAge() != yr-d.Y+1 || xy.GetIndex() != k {
						bad("XiaoYun.year/age", fmt.Sprintf("%d/%d", xy.GetYear(), xy.GetAge()), fmt.Sprintf("%d/%d", yr, yr-d.Y+1))
					}
					age := yr - d.Y + 1
					wantX := hourIdx + age
					if !wantFwd {
						wantX = hourIdx - age
					}
					if xy.GetGanZhi() != gz(wantX) {
						bad("XiaoYun.pillar", fmt.Sprintf("age %d:%s", age, xy.GetGanZhi()), gz(wantX))
					}
					if k == 0 {
						yg := mod(yr-4, 10)
						for q, ly := range ln.GetLiuYue() {
							wantM := ganS[mod(2*yg+2+q, 10)] + zhiS[mod(2+q, 12)]
							w.R.Evals++
							if ly.GetGanZhi() != wantM || ly.GetIndex() != q || ly.GetMonthInChinese() != LunarUtil.MONTH[q+1] {
								bad("LiuYue.pillar", fmt.Sprintf("%d month %d:%s", yr, q, ly.GetGanZhi()), wantM)
							}
						}
					}
				}
			}
			if ti == 0 && g == 1 && school == 2 && d.D == 15 && d.M%4 == 1 {
				w.Sample(map[string]interface{}{"birth": where, "gender": g, "school": school, "forward": wantFwd, "offset": []int{Y, M, D, H}, "distance_min": float64(distSec) / 60, "first_period": fmt.Sprintf("%d..%d %s", dys[1].GetStartYear(), dys[1].GetEndYear(), dys[1].GetGanZhi())})
			}
		}
	}
}
