package main

// C11 — alternative routes to the same fact give the same answer. Engine E1: every state is asked
// every question by both routes; eight-character attributes via functional-dependence tables.

import (
	"fmt"

	"github.com/6tail/lunar-go/calendar"
)

func init() {
	register(&Check{
		ID:            "C11",
		Rule:          "every civil day in the year set (thorough: all days 1..9998) x 14 moments (13 slot entries + 23:59:59; quick tier, and in the thorough tier the years outside the quick set: all 14 on term days, first/last days of lunar months and every third day, else 4 with a rotating inner slot): fixed list of route pairs — hour object vs Lunar.GetTime* accessors (27 pairs), GetTimes()[k] vs NewLunarTime, LunarYear vs Lunar year accessors under convention 1, deprecated aliases vs replacements (29 pairs), default-school accessors vs the explicit school; eight-character attributes collapsed by their defining pillars as selected by the current sect (functional-dependence tables, both sects). non-trivial = states at 23:xx (where the sects differ), on term days, and in the first/last lunar month (year routes)",
		Assume:        []string{"eight-character dependence keys: per-pillar attributes keyed by (day stem, pillar); TaiYuan by month pillar; TaiXi by day pillar; MingGong/ShenGong by (year stem, month branch, hour branch) — each key is a projection of the four pillars, so a violation here is a violation of 'same pillars => same attributes' and vice versa for attributes defined on that projection"},
		Shards:        narrowShards,
		Run:           runC11,
		MinNontrivial: 100,
	})
}

func runC11(w *W) {
	perturbCache = true
	fd := func(table, key, val, wit string) { w.FDCheck(table, key, hashStr(val), wit) }
	qset := map[int]bool{}
	for _, y := range quickYears(w.Shard.Seed, 9998) {
		qset[y] = true
	}
	sweepDays(w, "C11", func(d *Day, prev *Day) {
		if d.M == 1 && d.D == 1 {
			c11MonthObjects(w, d.Y)
		}
		// thorough tier: all 14 moments with all route pairs on every day of the quick set's years; every other year gets
		// the quick tier's moment rotation (all 14 x all pairs on all 3.65 M days is ~28 CPU-hours, measured)
		reduced := !w.Thorough() || !qset[d.Y]
		var times []hms
		{
			for k := 0; k <= 12; k++ {
				h := 0
				if k > 0 {
					h = 2*k - 1
				}
				times = append(times, hms{h, 0, 0})
			}
			times = append(times, hms{23, 59, 59})
		}
		if reduced {
			// quick tier: all 14 moments on term days, on the first and last day of a lunar month and on every third day;
			// otherwise 00:00, one inner slot rotating with the day number, 23:00 and 23:59:59
			l0 := d.L()
			special := d.J%3 == 0 || l0.GetJieQi() != "" || l0.GetDay() == 1 || l0.GetDay() >= 29
			if !special {
				times = []hms{times[0], times[1+d.J%11], times[12], times[13]}
			}
		}
		var gt []*calendar.LunarTime
		for ti, t := range times {
			l := d.At(t.h, t.m, t.s).GetLunar()
			wit := fmt.Sprintf("%s %02d:%02d:%02d", d.Ymd, t.h, t.m, t.s)
			w.R.Evals++
			if t.h == 23 || l.GetJieQi() != "" || l.GetMonth() == 1 || l.GetMonth() == 12 {
				w.R.Nontrivial++
			}
			ne := func(name string, a, b interface{}) {
				w.R.Transitions++
				w.R.Traces++
				if sa, ok := a.(string); ok {
					if sb, ok2 := b.(string); ok2 {
						if sa != sb {
							w.Viol("C11:"+name, fmt.Sprintf("routes disagree at %s: %s: %s <> %s", wit, name, clip(sa), clip(sb)), wit)
						}
						return
					}
				}
				if ia, ok := a.(int); ok {
					if ib, ok2 := b.(int); ok2 {
						if ia != ib {
							w.Viol("C11:"+name, fmt.Sprintf("routes disagree at %s: %s: %d <> %d", wit, name, ia, ib), wit)
						}
						return
					}
				}
				if ra, rb := render1(a), render1(b); ra != rb {
					w.Viol("C11:"+name, fmt.Sprintf("routes disagree at %s: %s: %s <> %s", wit, name, clip(ra), clip(rb)), wit)
				}
			}
			// ---- 1. hour object vs Lunar's own hour accessors
			lt := l.GetTime()
			ne("Time.GanZhi", lt.GetGanZhi(), l.GetTimeInGanZhi())
			ne("Time.Gan", lt.GetGan(), l.GetTimeGan())
			ne("Time.Zhi", lt.GetZhi(), l.GetTimeZhi())
			ne("Time.GanIndex", lt.GetGanIndex(), l.GetTimeGanIndex())
			ne("Time.ZhiIndex", lt.GetZhiIndex(), l.GetTimeZhiIndex())
			ne("Time.ShengXiao", lt.GetShengXiao(), l.GetTimeShengXiao())
			ne("Time.NaYin", lt.GetNaYin(), l.GetTimeNaYin())
			ne("Time.Xun", lt.GetXun(), l.GetTimeXun())
			ne("Time.XunKong", lt.GetXunKong(), l.GetTimeXunKong())
			ne("Time.NineStar", lt.GetNineStar().GetIndex(), l.GetTimeNineStar().GetIndex())
			ne("Time.TianShen", lt.GetTianShen(), l.GetTimeTianShen())
			ne("Time.TianShenType", lt.GetTianShenType(), l.GetTimeTianShenType())
			ne("Time.TianShenLuck", lt.GetTianShenLuck(), l.GetTimeTianShenLuck())
			ne("Time.PositionXi", lt.GetPositionXi(), l.GetTimePositionXi())
			ne("Time.PositionXiDesc", lt.GetPositionXiDesc(), l.GetTimePositionXiDesc())
			ne("Time.PositionYangGui", lt.GetPositionYangGui(), l.GetTimePositionYangGui())
			ne("Time.PositionYangGuiDesc", lt.GetPositionYangGuiDesc(), l.GetTimePositionYangGuiDesc())
			ne("Time.PositionYinGui", lt.GetPositionYinGui(), l.GetTimePositionYinGui())
			ne("Time.PositionYinGuiDesc", lt.GetPositionYinGuiDesc(), l.GetTimePositionYinGuiDesc())
			ne("Time.PositionFu", lt.GetPositionFu(), l.GetTimePositionFu())
			ne("Time.PositionFuDesc", lt.GetPositionFuDesc(), l.GetTimePositionFuDesc())
			ne("Time.PositionCai", lt.GetPositionCai(), l.GetTimePositionCai())
			ne("Time.PositionCaiDesc", lt.GetPositionCaiDesc(), l.GetTimePositionCaiDesc())
			ne("Time.Chong", lt.GetChong(), l.GetTimeChong())
			ne("Time.ChongGan", lt.GetChongGan(), l.GetTimeChongGan())
			ne("Time.ChongGanTie", lt.GetChongGanTie(), l.GetTimeChongGanTie())
			ne("Time.ChongShengXiao", lt.GetChongShengXiao(), l.GetTimeChongShengXiao())
			ne("Time.ChongDesc", lt.GetChongDesc(), l.GetTimeChongDesc())
			ne("Time.Sha", lt.GetSha(), l.GetTimeSha())
			ne("Time.Yi", lt.GetYi(), l.GetTimeYi())
			ne("Time.Ji", lt.GetJi(), l.GetTimeJi())
			ne("Time.PositionFu:default=sect2", lt.GetPositionFu(), lt.GetPositionFuBySect(2))
			ne("Time.PositionFuDesc:default=sect2", lt.GetPositionFuDesc(), lt.GetPositionFuDescBySect(2))
			// GetTimes()[k] vs NewLunarTime at that hour (once per day)
			// (quick tier: at 00:00 every day, at 23:00 on even and at 23:59:59 on odd days)
			if ti == 0 || (t.h == 23 && (!reduced || (d.J%2 == 0) == (t.m == 0))) {
				gt = l.GetTimes()
				if len(gt) != 13 {
					w.Viol("C11:GetTimes:len", fmt.Sprintf("GetTimes has %d entries at %s", len(gt), wit), wit)
				}
				for k, x := range gt {
					h := 0
					if k > 0 {
						h = 2*k - 1
					}
					y := calendar.NewLunarTime(l.GetYear(), l.GetMonth(), l.GetDay(), h, 0, 0)
					ne(fmt.Sprintf("GetTimes[%d]", k), digestObject(x, nil), digestObject(y, nil))
					if x.GetZhiIndex() != k%12 {
						w.Viol("C11:GetTimes:slot", fmt.Sprintf("GetTimes()[%d] has branch %d at %s", k, x.GetZhiIndex(), wit), wit)
					}
				}
			}
			// ---- 2. lunar-year object vs New-Year-based year accessors
			if ti == 0 || ti == len(times)-1 {
				ly := calendar.NewLunarYear(l.GetYear())
				ne("LunarYear.GanZhi", ly.GetGanZhi(), l.GetYearInGanZhi())
				ne("LunarYear.Gan", ly.GetGan(), l.GetYearGan())
				ne("LunarYear.Zhi", ly.GetZhi(), l.GetYearZhi())
				ne("LunarYear.GanIndex", ly.GetGanIndex(), l.GetYearGanIndex())
				ne("LunarYear.ZhiIndex", ly.GetZhiIndex(), l.GetYearZhiIndex())
				ne("LunarYear.NineStar", ly.GetNineStar().GetIndex(), l.GetYearNineStarBySect(1).GetIndex())
				ne("LunarYear.PositionTaiSui", ly.GetPositionTaiSui(), l.GetYearPositionTaiSuiBySect(1))
				ne("LunarYear.PositionTaiSuiDesc", ly.GetPositionTaiSuiDesc(), l.GetYearPositionTaiSuiDescBySect(1))
				ne("LunarYear.PositionFu:default=sect2", ly.GetPositionFu(), ly.GetPositionFuBySect(2))
				lm := calendar.NewLunarMonthFromYm(l.GetYear(), l.GetMonth())
				if lm != nil {
					ne("LunarMonth.PositionFu:default=sect2", lm.GetPositionFu(), lm.GetPositionFuBySect(2))
					ne("LunarMonth.GanZhi", lm.GetGanZhi(), lm.GetGan()+lm.GetZhi())
				}
			}
			// quick tier: the alias/default groups at the first, a rotating and the two 23:xx moments of each day
			full := !reduced || ti == 0 || ti >= len(times)-2 || ti == d.J%len(times)
			ec := l.GetEightChar()
			if full {
				// ---- 2b. twin entry points: package-level constructors vs the accessor of the same name
				if msg, p := try(func() {
					ne("NewLunarFromSolar vs Solar.GetLunar", fieldDigest(calendar.NewLunarFromSolar(l.GetSolar())), fieldDigest(l))
					ec2 := calendar.NewEightChar(l)
					for _, sect := range []int{1, 2} {
						ec.SetSect(sect)
						ec2.SetSect(sect)
						ne(fmt.Sprintf("NewEightChar vs Lunar.GetEightChar (sect %d)", sect),
							ec2.String()+" "+ec2.GetDayDiShi()+ec2.GetTaiYuan()+ec2.GetTaiXi()+ec2.GetMingGong()+ec2.GetShenGong()+ec2.GetDayXun()+ec2.GetTimeShiShenGan()+fmt.Sprint(ec2.GetDayHideGan()),
							ec.String()+" "+ec.GetDayDiShi()+ec.GetTaiYuan()+ec.GetTaiXi()+ec.GetMingGong()+ec.GetShenGong()+ec.GetDayXun()+ec.GetTimeShiShenGan()+fmt.Sprint(ec.GetDayHideGan()))
					}
					ec.SetSect(2)
					ne("NewTaoFromLunar vs Lunar.GetTao", calendar.NewTaoFromLunar(l).ToFullString(), l.GetTao().ToFullString())
					ne("NewFotoFromLunar vs Lunar.GetFoto", calendar.NewFotoFromLunar(l).ToFullString(), l.GetFoto().ToFullString())
				}); p {
					w.Viol("C11:twin-constructors:panic", "panic at "+wit+": "+msg, wit)
				}
				// ---- 3. deprecated aliases
				ne("alias.GetGan", l.GetGan(), l.GetYearGan())
				ne("alias.GetZhi", l.GetZhi(), l.GetYearZhi())
				ne("alias.GetShengxiao", l.GetShengxiao(), l.GetYearShengXiao())
				ne("alias.GetPositionXi", l.GetPositionXi(), l.GetDayPositionXi())
				ne("alias.GetPositionXiDesc", l.GetPositionXiDesc(), l.GetDayPositionXiDesc())
				ne("alias.GetPositionYangGui", l.GetPositionYangGui(), l.GetDayPositionYangGui())
				ne("alias.GetPositionYangGuiDesc", l.GetPositionYangGuiDesc(), l.GetDayPositionYangGuiDesc())
				ne("alias.GetPositionYinGui", l.GetPositionYinGui(), l.GetDayPositionYinGui())
				ne("alias.GetPositionYinGuiDesc", l.GetPositionYinGuiDesc(), l.GetDayPositionYinGuiDesc())
				ne("alias.GetPositionFu", l.GetPositionFu(), l.GetDayPositionFu())
				ne("alias.GetPositionFuDesc", l.GetPositionFuDesc(), l.GetDayPositionFuDesc())
				ne("alias.GetPositionCai", l.GetPositionCai(), l.GetDayPositionCai())
				ne("alias.GetPositionCaiDesc", l.GetPositionCaiDesc(), l.GetDayPositionCaiDesc())
				ne("alias.GetChong", l.GetChong(), l.GetDayChong())
				ne("alias.GetChongGan", l.GetChongGan(), l.GetDayChongGan())
				ne("alias.GetChongGanTie", l.GetChongGanTie(), l.GetDayChongGanTie())
				ne("alias.GetChongShengXiao", l.GetChongShengXiao(), l.GetDayChongShengXiao())
				ne("alias.GetChongDesc", l.GetChongDesc(), l.GetDayChongDesc())
				ne("alias.GetSha", l.GetSha(), l.GetDaySha())
				ne("alias.Solar.GetXingzuo", l.GetSolar().GetXingzuo(), l.GetSolar().GetXingZuo())
				// the deprecated eight-character aliases read the date's own chart: whatever day-boundary convention that chart
				// is set to, alias and replacement agree
				for _, sect := range []int{1, 2} {
					ec.SetSect(sect)
					ne("alias.GetBaZi", l.GetBaZi(), [4]string{ec.GetYear(), ec.GetMonth(), ec.GetDay(), ec.GetTime()})
					ne("alias.GetBaZiWuXing", l.GetBaZiWuXing(), [4]string{ec.GetYearWuXing(), ec.GetMonthWuXing(), ec.GetDayWuXing(), ec.GetTimeWuXing()})
					ne("alias.GetBaZiNaYin", l.GetBaZiNaYin(), [4]string{ec.GetYearNaYin(), ec.GetMonthNaYin(), ec.GetDayNaYin(), ec.GetTimeNaYin()})
					ne("alias.GetBaZiShiShenGan", l.GetBaZiShiShenGan(), [4]string{ec.GetYearShiShenGan(), ec.GetMonthShiShenGan(), ec.GetDayShiShenGan(), ec.GetTimeShiShenGan()})
					ne("alias.GetBaZiShiShenZhi", l.GetBaZiShiShenZhi(), [4]string{fmt.Sprint(ec.GetYearShiShenZhi().Front().Value), fmt.Sprint(ec.GetMonthShiShenZhi().Front().Value), fmt.Sprint(ec.GetDayShiShenZhi().Front().Value), fmt.Sprint(ec.GetTimeShiShenZhi().Front().Value)})
					ne("alias.GetBaZiShiShenYearZhi", l.GetBaZiShiShenYearZhi(), ec.GetYearShiShenZhi())
					ne("alias.GetBaZiShiShenMonthZhi", l.GetBaZiShiShenMonthZhi(), ec.GetMonthShiShenZhi())
					ne("alias.GetBaZiShiShenDayZhi", l.GetBaZiShiShenDayZhi(), ec.GetDayShiShenZhi())
					ne("alias.GetBaZiShiShenTimeZhi", l.GetBaZiShiShenTimeZhi(), ec.GetTimeShiShenZhi())
				}
				ec.SetSect(2)
				// ---- 4. default school vs explicit school
				ne("default.GetYearNineStar=sect2", l.GetYearNineStar().GetIndex(), l.GetYearNineStarBySect(2).GetIndex())
				ne("default.GetMonthNineStar=sect2", l.GetMonthNineStar().GetIndex(), l.GetMonthNineStarBySect(2).GetIndex())
				ne("default.GetDayYi=sect1", l.GetDayYi(), l.GetDayYiBySect(1))
				ne("default.GetDayJi=sect1", l.GetDayJi(), l.GetDayJiBySect(1))
				ne("default.GetDayPositionFu=sect2", l.GetDayPositionFu(), l.GetDayPositionFuBySect(2))
				ne("default.GetDayPositionFuDesc=sect2", l.GetDayPositionFuDesc(), l.GetDayPositionFuDescBySect(2))
				ne("default.GetYearPositionTaiSui=sect2", l.GetYearPositionTaiSui(), l.GetYearPositionTaiSuiBySect(2))
				ne("default.GetYearPositionTaiSuiDesc=sect2", l.GetYearPositionTaiSuiDesc(), l.GetYearPositionTaiSuiDescBySect(2))
				ne("default.GetMonthPositionTaiSui=sect2", l.GetMonthPositionTaiSui(), l.GetMonthPositionTaiSuiBySect(2))
				ne("default.GetMonthPositionTaiSuiDesc=sect2", l.GetMonthPositionTaiSuiDesc(), l.GetMonthPositionTaiSuiDescBySect(2))
				ne("default.GetDayPositionTaiSui=sect2", l.GetDayPositionTaiSui(), l.GetDayPositionTaiSuiBySect(2))
				ne("default.GetDayPositionTaiSuiDesc=sect2", l.GetDayPositionTaiSuiDesc(), l.GetDayPositionTaiSuiDescBySect(2))
				if ti == d.J%len(times) {
					for g := 0; g <= 1; g++ {
						a, b := ec.GetYun(g), ec.GetYunBySect(g, 1)
						ne(fmt.Sprintf("default.GetYun(%d)=sect1", g), []int{a.GetStartYear(), a.GetStartMonth(), a.GetStartDay(), a.GetStartHour(), b2i(a.IsForward())}, []int{b.GetStartYear(), b.GetStartMonth(), b.GetStartDay(), b.GetStartHour(), b2i(b.IsForward())})
					}
					if d.Y >= 1900 && d.Y <= 2030 && d.D%9 == 1 {
						y, m, dd, tt := ec.GetYear(), ec.GetMonth(), ec.GetDay(), ec.GetTime()
						ne("default.ListSolarFromBaZi=sect2", calendar.ListSolarFromBaZi(y, m, dd, tt), calendar.ListSolarFromBaZiBySect(y, m, dd, tt, 2))
						ne("default.ListSolarFromBaZiBySect=base1900", calendar.ListSolarFromBaZiBySect(y, m, dd, tt, 2), calendar.ListSolarFromBaZiBySectAndBaseYear(y, m, dd, tt, 2, 1900))
					}
				}
			}
			// ---- 5. eight-character attributes as functions of the pillars selected by the sect
			for _, sect := range []int{1, 2} {
				ec.SetSect(sect)
				if ec.GetSect() != sect {
					w.Viol("C11:SetSect", "SetSect did not take", wit)
				}
				ds := ec.GetDayGan()
				fd("ec.year", ds+"|"+ec.GetYear(), js(ec.GetYearGan(), ec.GetYearZhi(), ec.GetYearHideGan(), ec.GetYearWuXing(), ec.GetYearNaYin(), ec.GetYearShiShenGan(), ec.GetYearShiShenZhi(), ec.GetYearDiShi(), ec.GetYearXun(), ec.GetYearXunKong()), wit)
				fd("ec.month", ds+"|"+ec.GetMonth(), js(ec.GetMonthGan(), ec.GetMonthZhi(), ec.GetMonthHideGan(), ec.GetMonthWuXing(), ec.GetMonthNaYin(), ec.GetMonthShiShenGan(), ec.GetMonthShiShenZhi(), ec.GetMonthDiShi(), ec.GetMonthXun(), ec.GetMonthXunKong()), wit)
				fd("ec.day", ec.GetDay(), js(ec.GetDayGan(), ec.GetDayZhi(), ec.GetDayHideGan(), ec.GetDayWuXing(), ec.GetDayNaYin(), ec.GetDayShiShenGan(), ec.GetDayShiShenZhi(), ec.GetDayDiShi(), ec.GetDayXun(), ec.GetDayXunKong(), ec.GetTaiXi(), ec.GetTaiXiNaYin(), fmt.Sprint(ec.GetDayGanIndex()), fmt.Sprint(ec.GetDayZhiIndex())), wit)
				fd("ec.time", ds+"|"+ec.GetTime(), js(ec.GetTimeGan(), ec.GetTimeZhi(), ec.GetTimeHideGan(), ec.GetTimeWuXing(), ec.GetTimeNaYin(), ec.GetTimeShiShenGan(), ec.GetTimeShiShenZhi(), ec.GetTimeDiShi(), ec.GetTimeXun(), ec.GetTimeXunKong()), wit)
				fd("ec.taiYuan", ec.GetMonth(), js(ec.GetTaiYuan(), ec.GetTaiYuanNaYin()), wit)
				fd("ec.gong", ec.GetYearGan()+"|"+ec.GetMonthZhi()+"|"+ec.GetTimeZhi(), js(ec.GetMingGong(), ec.GetMingGongNaYin(), ec.GetShenGong(), ec.GetShenGongNaYin()), wit)
				ne(fmt.Sprintf("ec.String:sect%d", sect), ec.String(), ec.GetYear()+" "+ec.GetMonth()+" "+ec.GetDay()+" "+ec.GetTime())
			}
			ec.SetSect(2)
		}
		if d.D == 1 && d.M == 3 && d.Y%100 == 24 {
			w.Sample(map[string]interface{}{"day": d.Ymd, "moments": len(times), "route_pairs_per_moment": 95})
		}
	})
}

func clip(s string) string {
	if len(s) > 120 {
		return s[:120] + "…"
	}
	return s
}
func b2i(b bool) int {
	if b {
		return 1
	}
	return 0
}
func jqs(j *calendar.JieQi) string {
	if j == nil {
		return "nil"
	}
	return j.GetName() + "@" + j.GetSolar().ToYmdHms()
}

// c11MonthObjects: a lunar month object answers the same whichever route produced it - built by NewLunarMonthFromYm,
// taken from the 15-entry list of a year (which also holds months of the neighbouring years) or reached by Next(n).
func c11MonthObjects(w *W, y int) {
	reform := func(y int) bool { return (y >= 7 && y <= 24) || (y >= 235 && y <= 241) }
	if reform(y) {
		return
	}
	cmp := func(route string, got *calendar.LunarMonth) {
		if got == nil || got.GetYear() < 1 || got.GetYear() > 9998 {
			return
		}
		var direct *calendar.LunarMonth
		try(func() { direct = calendar.NewLunarMonthFromYm(got.GetYear(), got.GetMonth()) })
		if direct == nil || direct.GetFirstJulianDay() != got.GetFirstJulianDay() {
			return // C06 judges labels and first days
		}
		w.R.Evals++
		w.R.Traces++
		a, b := digestObject(got, nil), digestObject(direct, nil)
		if a == b {
			return
		}
		key := fmt.Sprintf("%d/%d", got.GetYear(), got.GetMonth())
		fp := "C11:month-object:" + route + ":" + key
		// class: the object comes from the table of the following year, which starts at month 11 of this month's year and
		// numbers positions from there, while the month's own table counts the leap month that precedes it
		am := got.GetMonth()
		if am < 0 {
			am = -am
		}
		if lp := calendar.NewLunarYear(got.GetYear()).GetLeapMonth(); am >= 11 && lp > 0 && (lp < am || (lp == am && got.GetMonth() < 0)) && direct.GetIndex() == got.GetIndex()+1 {
			fp = "C11:month-object:position-in-year-of-months-11-12-after-a-leap-month-differs-between-own-table-and-next-years-table"
		}
		w.Viol(fp, fmt.Sprintf("lunar month %s obtained as %s and built by NewLunarMonthFromYm answer differently: %s", key, route, firstDiff(a, b)), y)
	}
	var ly *calendar.LunarYear
	try(func() { ly = calendar.NewLunarYear(y) })
	if ly == nil {
		return
	}
	for e := ly.GetMonths().Front(); e != nil; e = e.Next() {
		cmp(fmt.Sprintf("an item of NewLunarYear(%d).GetMonths()", y), e.Value.(*calendar.LunarMonth))
	}
	for e := ly.GetMonthsInYear().Front(); e != nil; e = e.Next() {
		m := e.Value.(*calendar.LunarMonth)
		for _, n := range []int{-1, 1, -13, 13, -2, 12} {
			var nx *calendar.LunarMonth
			try(func() { nx = m.Next(n) })
			cmp(fmt.Sprintf("%d/%d.Next(%d)", m.GetYear(), m.GetMonth(), n), nx)
		}
	}
}
