package main

// C15 — civil weeks/months/seasons/half-years/years partition time and navigate back. Engine E1, reference R1.

import (
	"container/list"
	"fmt"

	"github.com/6tail/lunar-go/SolarUtil"
	"github.com/6tail/lunar-go/calendar"
)

var weekSteps = []int{0, 1, -1, 2, -2, 5, -5, 53, -53}

func init() {
	register(&Check{
		ID:     "C15",
		Rule:   "every civil day in the year set (thorough: all days 1..9998) x first weekday 0..6: week first day, 7 consecutive days, in-month days, index in month and year, Next(n,false) and Next(n,true) for the step alphabet (and back), compared with integer day-number arithmetic; every month x start: GetWeeks against the distinct weeks meeting the month and GetWeeksOfMonth; every month/season/half-year/year: members, index, Next. non-trivial = weeks that span two months or the 1582 switch, and month-separated steps that change month",
		Assume: []string{"R1 weekday and month lengths", "a month-separated week position is (year, month, index); a week spanning two months occupies the last position of the first month and the first of the next, as the property words it"},
		Shards: func(tier string, seed int64) []Shard { return yearShardsWith(tier, seed, 9998, "", cycleYears()) },
		Run:    runC15,
		Bounds: func(tier string) map[string]interface{} {
			return map[string]interface{}{"week_steps": weekSteps, "starts": "0..6"}
		},
		MinNontrivial: 100,
	})
}

func weekStartOf(j, s int) int { return j - mod(r1Weekday(j)-s, 7) }
func monthFirst(y, m int) int  { return r1JDN(y, m, 1) }
func monthLast(y, m int) int   { return r1JDN(y, m, r1LastDay(y, m)) }
func idxInMonth(j, s int) int {
	y, m, _ := r1FromJDN(j)
	return (weekStartOf(j, s)-weekStartOf(monthFirst(y, m), s))/7 + 1
}
func weeksOfMonthRef(y, m, s int) int { return idxInMonth(monthLast(y, m), s) }

type wpos struct{ y, m, i int }

func (p wpos) step(n, s int) wpos {
	for n > 0 {
		if p.i < weeksOfMonthRef(p.y, p.m, s) {
			p.i++
		} else {
			p.y, p.m, _ = r1AddMonths(p.y, p.m, 1, 1)
			p.i = 1
		}
		n--
	}
	for n < 0 {
		if p.i > 1 {
			p.i--
		} else {
			p.y, p.m, _ = r1AddMonths(p.y, p.m, 1, -1)
			p.i = weeksOfMonthRef(p.y, p.m, s)
		}
		n++
	}
	return p
}
func (p wpos) firstDay(s int) int { return weekStartOf(monthFirst(p.y, p.m), s) + 7*(p.i-1) }

func solarsJDN(l *list.List) []int {
	var out []int
	for e := l.Front(); e != nil; e = e.Next() {
		switch v := e.Value.(type) {
		case *calendar.Solar:
			out = append(out, r1JDN(v.GetYear(), v.GetMonth(), v.GetDay()))
		case calendar.Solar:
			out = append(out, r1JDN(v.GetYear(), v.GetMonth(), v.GetDay()))
		default:
			out = append(out, -1)
		}
	}
	return out
}

func runC15(w *W) {
	lastOK := r1JDN(9998, 12, 31)
	sweepDays(w, "C15", func(d *Day, prev *Day) {
		for s := 0; s <= 6; s++ {
			wk := calendar.NewSolarWeekFromYmd(d.Y, d.M, d.D, s)
			F := weekStartOf(d.J, s)
			if F < jdnFirst || F+6 > lastOK {
				continue
			}
			w.R.Evals++
			where := fmt.Sprintf("%s start=%d", d.Ymd, s)
			spans := false
			if _, fm, _ := r1FromJDN(F); fm != d.M {
				spans = true
			}
			if _, lm, _ := r1FromJDN(F + 6); lm != d.M {
				spans = true
			}
			if spans {
				w.R.Nontrivial++
			}
			// first day and days
			fd := wk.GetFirstDay()
			if r1JDN(fd.GetYear(), fd.GetMonth(), fd.GetDay()) != F {
				w.Viol("C15:GetFirstDay:"+d.Ymd, fmt.Sprintf("%s: first day %s, reference %s", where, fd.ToYmd(), r1Ymd(F)), where)
			}
			days := solarsJDN(wk.GetDays())
			okDays := len(days) == 7
			for i := 0; okDays && i < 7; i++ {
				okDays = days[i] == F+i
			}
			if !okDays {
				w.Viol("C15:GetDays:"+d.Ymd, fmt.Sprintf("%s: GetDays is not the 7 consecutive days from %s: %v", where, r1Ymd(F), days), where)
			}
			// in-month days
			var wantIn []int
			for i := 0; i < 7; i++ {
				if _, mm, _ := r1FromJDN(F + i); mm == d.M {
					wantIn = append(wantIn, F+i)
				}
			}
			var gotIn []int
			if msg, p := try(func() { gotIn = solarsJDN(wk.GetDaysInMonth()) }); p {
				w.ViolT("C15:GetDaysInMonth:panic", fmt.Sprintf("SolarWeek.GetDaysInMonth panics (%s), e.g. %s", msg, where), where,
					fmt.Sprintf("func TestReplay(t *testing.T) { calendar.NewSolarWeekFromYmd(%d,%d,%d,%d).GetDaysInMonth() }", d.Y, d.M, d.D, s))
			} else if fmt.Sprint(gotIn) != fmt.Sprint(wantIn) {
				w.Viol("C15:GetDaysInMonth:"+d.Ymd, fmt.Sprintf("%s: in-month days %v, reference %v", where, gotIn, wantIn), where)
			}
			if f := wk.GetFirstDayInMonth(); f == nil || len(wantIn) == 0 || r1JDN(f.GetYear(), f.GetMonth(), f.GetDay()) != wantIn[0] {
				w.Viol("C15:GetFirstDayInMonth:"+d.Ymd, where, where)
			}
			// indices
			wantIdx := idxInMonth(d.J, s)
			if got := wk.GetIndex(); got != wantIdx {
				fp := "C15:GetIndex:" + d.Ymd
				w.Viol(fp, fmt.Sprintf("%s: index in month %d, reference %d (week starts passed)", where, got, wantIdx), where)
			}
			wantIY := (F-weekStartOf(r1JDN(d.Y, 1, 1), s))/7 + 1
			if got := wk.GetIndexInYear(); got != wantIY {
				w.Viol("C15:GetIndexInYear:"+d.Ymd, fmt.Sprintf("%s: index in year %d, reference %d", where, got, wantIY), where)
			}
			// far whole-week steps (whole 400-year cycles = 20871 weeks and neighbours), one first weekday per day
			if s == d.J%7 {
				for _, n := range []int{20871, -20871, 41742, -41742, 20870, -20872, 5218, -5218} {
					tj := d.J + 7*n
					if tj-7 < jdnFirst || tj+7 > lastOK {
						continue
					}
					var nx *calendar.SolarWeek
					if msg, p := try(func() { nx = wk.Next(n, false) }); p {
						w.Viol(fmt.Sprintf("C15:Next(%d,false):panic:%s", n, d.Ymd), msg, where)
						continue
					}
					w.R.Transitions++
					ty, tm, td := r1FromJDN(tj)
					if nx.GetYear() != ty || nx.GetMonth() != tm || nx.GetDay() != td || nx.GetFirstDay().ToYmd() != r1Ymd(F+7*n) {
						w.Viol(fmt.Sprintf("C15:Next(%d,false):%s", n, d.Ymd), fmt.Sprintf("%s: Next(%d,false) = %d-%d-%d (first day %s), reference = week of %s", where, n, nx.GetYear(), nx.GetMonth(), nx.GetDay(), nx.GetFirstDay().ToYmd(), r1Ymd(tj)), where)
					} else if bk := nx.Next(-n, false); bk.GetFirstDay().ToYmd() != r1Ymd(F) {
						w.Viol(fmt.Sprintf("C15:Next(%d,false)back:%s", n, d.Ymd), "n whole weeks forward then back is not the same week", where)
					}
				}
			}
			// month-separated stepping over more than a year of positions, one first weekday per day
			if s == (d.J+3)%7 {
				for _, n := range []int{63, -63, 70, -70, 131, -131} {
					p0 := wpos{d.Y, d.M, wantIdx}
					pt := p0.step(n, s)
					if pt.y < 2 || pt.y > 9997 || pt.firstDay(s) < jdnFirst || pt.firstDay(s)+6 > lastOK {
						continue
					}
					var ns *calendar.SolarWeek
					if msg, p := try(func() { ns = wk.Next(n, true) }); p {
						w.Viol(fmt.Sprintf("C15:Next(%d,true):panic:%s", n, d.Ymd), msg, where)
						continue
					}
					w.R.Transitions++
					w.R.Nontrivial++
					if ns.GetFirstDay().ToYmd() != r1Ymd(pt.firstDay(s)) || ns.GetYear() != pt.y || ns.GetMonth() != pt.m || idxInMonth(r1JDN(ns.GetYear(), ns.GetMonth(), ns.GetDay()), s) != pt.i {
						w.Viol(fmt.Sprintf("C15:Next(%d,true):%s", n, d.Ymd), fmt.Sprintf("%s: Next(%d,true) = %d-%d-%d (week starting %s), the position walk gives %d-%d week %d starting %s", where, n, ns.GetYear(), ns.GetMonth(), ns.GetDay(), ns.GetFirstDay().ToYmd(), pt.y, pt.m, pt.i, r1Ymd(pt.firstDay(s))), where)
					}
				}
			}
			// stepping
			for _, n := range weekSteps {
				tj := d.J + 7*n
				if tj-7 < jdnFirst || tj+7 > lastOK {
					continue
				}
				// whole weeks
				var nx *calendar.SolarWeek
				if msg, p := try(func() { nx = wk.Next(n, false) }); p {
					w.Viol(fmt.Sprintf("C15:Next(%d,false):panic:%s", n, d.Ymd), msg, where)
				} else {
					w.R.Transitions++
					w.R.Traces++
					ty, tm, td := r1FromJDN(tj)
					if nx.GetYear() != ty || nx.GetMonth() != tm || nx.GetDay() != td || nx.GetFirstDay().ToYmd() != r1Ymd(F+7*n) {
						w.Viol(fmt.Sprintf("C15:Next(%d,false):%s", n, d.Ymd), fmt.Sprintf("%s: Next(%d,false) = %d-%d-%d (first day %s), reference = week of %s", where, n, nx.GetYear(), nx.GetMonth(), nx.GetDay(), nx.GetFirstDay().ToYmd(), r1Ymd(tj)), where)
					}
					if bk := nx.Next(-n, false); bk.GetFirstDay().ToYmd() != r1Ymd(F) {
						w.Viol(fmt.Sprintf("C15:Next(%d,false)back:%s", n, d.Ymd), "n whole weeks forward then back is not the same week", where)
					}
				}
				// month-separated
				p0 := wpos{d.Y, d.M, wantIdx}
				pt := p0.step(n, s)
				if pt.y < 1 || pt.y > 9998 || pt.firstDay(s) < jdnFirst || pt.firstDay(s)+6 > lastOK {
					continue
				}
				var ns *calendar.SolarWeek
				if msg, p := try(func() { ns = wk.Next(n, true) }); p {
					w.Viol(fmt.Sprintf("C15:Next(%d,true):panic:%s", n, d.Ymd), msg, where)
					continue
				}
				w.R.Transitions++
				w.R.Traces++
				if pt.m != d.M {
					w.R.Nontrivial++
				}
				gotF := ns.GetFirstDay()
				if ns.GetYear() != pt.y || ns.GetMonth() != pt.m || idxInMonth(r1JDN(ns.GetYear(), ns.GetMonth(), ns.GetDay()), s) != pt.i || r1JDN(gotF.GetYear(), gotF.GetMonth(), gotF.GetDay()) != pt.firstDay(s) {
					fp := fmt.Sprintf("C15:Next(%d,true):%s", n, d.Ymd)
					w.ViolT(fp, fmt.Sprintf("%s (position %d-%d week %d): Next(%d,true) = %d-%d-%d (week first day %s), reference position %d-%d week %d (first day %s)", where, d.Y, d.M, wantIdx, n, ns.GetYear(), ns.GetMonth(), ns.GetDay(), gotF.ToYmd(), pt.y, pt.m, pt.i, r1Ymd(pt.firstDay(s))), where,
						fmt.Sprintf("func TestReplay(t *testing.T) { w := calendar.NewSolarWeekFromYmd(%d,%d,%d,%d).Next(%d,true); t.Log(w.GetYear(), w.GetMonth(), w.GetDay(), w.GetFirstDay()) }", d.Y, d.M, d.D, s, n))
					continue
				}
				// n forward then n back returns to the starting unit
				if n != 0 {
					bk := ns.Next(-n, true)
					bf := bk.GetFirstDay()
					if bk.GetYear() != d.Y || bk.GetMonth() != d.M || r1JDN(bf.GetYear(), bf.GetMonth(), bf.GetDay()) != F {
						w.Viol(fmt.Sprintf("C15:Next(%d,true)back:%s", n, d.Ymd), fmt.Sprintf("%s: Next(%d,true).Next(%d,true) = %d-%d week starting %s, started from %d-%d week starting %s", where, n, -n, bk.GetYear(), bk.GetMonth(), bf.ToYmd(), d.Y, d.M, r1Ymd(F)), where)
					}
				}
			}
		}
		// per-month checks on the first day of each month
		if d.D == 1 {
			c15Month(w, d)
		}
	})
}

func c15Month(w *W, d *Day) {
	y, m := d.Y, d.M
	sm := calendar.NewSolarMonthFromYm(y, m)
	w.R.States++
	// days
	got := solarsJDN(sm.GetDays())
	var want []int
	for j := monthFirst(y, m); j <= monthLast(y, m); j++ {
		want = append(want, j)
	}
	if fmt.Sprint(got) != fmt.Sprint(want) {
		w.Viol(fmt.Sprintf("C15:SolarMonth.GetDays:%04d-%02d", y, m), fmt.Sprintf("%d days listed, reference %d", len(got), len(want)), d.Ymd)
	}
	for s := 0; s <= 6; s++ {
		k := weeksOfMonthRef(y, m, s)
		if g := SolarUtil.GetWeeksOfMonth(y, m, s); g != k {
			w.ViolT(fmt.Sprintf("C15:GetWeeksOfMonth:%04d-%02d:start%d", y, m, s), fmt.Sprintf("GetWeeksOfMonth(%d,%d,%d) = %d, the month meets %d distinct weeks", y, m, s, g, k), []int{y, m, s},
				fmt.Sprintf("func TestReplay(t *testing.T) { if SolarUtil.GetWeeksOfMonth(%d,%d,%d) != %d { t.Fatal() } }", y, m, s, k))
		}
		if weekStartOf(monthFirst(y, m), s) < jdnFirst {
			continue
		}
		var firsts []int
		if msg, p := try(func() {
			for e := sm.GetWeeks(s).Front(); e != nil; e = e.Next() {
				f := e.Value.(*calendar.SolarWeek).GetFirstDay()
				firsts = append(firsts, r1JDN(f.GetYear(), f.GetMonth(), f.GetDay()))
			}
		}); p {
			w.Viol(fmt.Sprintf("C15:GetWeeks:panic:%04d-%02d", y, m), msg, d.Ymd)
			continue
		}
		w.R.Evals++
		var wantF []int
		for i := 0; i < k; i++ {
			wantF = append(wantF, weekStartOf(monthFirst(y, m), s)+7*i)
		}
		if fmt.Sprint(firsts) != fmt.Sprint(wantF) {
			w.Viol(fmt.Sprintf("C15:GetWeeks:%04d-%02d:start%d", y, m, s), fmt.Sprintf("GetWeeks(%d) of %d-%d lists %d weeks, the month meets %d distinct weeks", s, y, m, len(firsts), k), []int{y, m, s})
		}
	}
	// month navigation
	for _, n := range []int{0, 1, -1, 11, -11, 12, -12, 13, -13, 25, -25, 1200, -1200} {
		ty, tm, _ := r1AddMonths(y, m, 1, n)
		nx := sm.Next(n)
		w.R.Transitions++
		if nx.GetYear() != ty || nx.GetMonth() != tm {
			w.Viol(fmt.Sprintf("C15:SolarMonth.Next(%d):%04d-%02d", n, y, m), fmt.Sprintf("= %d-%d, reference %d-%d", nx.GetYear(), nx.GetMonth(), ty, tm), d.Ymd)
		}
		if bk := nx.Next(-n); bk.GetYear() != y || bk.GetMonth() != m {
			w.Viol(fmt.Sprintf("C15:SolarMonth.Next(%d)back:%04d-%02d", n, y, m), "n months forward then back is not the identity", d.Ymd)
		}
	}
	// season / half-year / year
	ss := calendar.NewSolarSeasonFromYm(y, m)
	if ss.GetIndex() != (m-1)/3+1 || !monthsAre(ss.GetMonths(), y, (m-1)/3*3+1, 3) {
		w.Viol(fmt.Sprintf("C15:SolarSeason:%04d-%02d", y, m), "season index/months wrong", d.Ymd)
	}
	hy := calendar.NewSolarHalfYearFromYm(y, m)
	if hy.GetIndex() != (m-1)/6+1 || !monthsAre(hy.GetMonths(), y, (m-1)/6*6+1, 6) {
		w.Viol(fmt.Sprintf("C15:SolarHalfYear:%04d-%02d", y, m), "half-year index/months wrong", d.Ymd)
	}
	for _, n := range []int{0, 1, -1, 3, -3, 4, -4, 5, -5, 9, -9} {
		ty, tm, _ := r1AddMonths(y, m, 1, 3*n)
		nx := ss.Next(n)
		w.R.Transitions++
		if nx.GetYear() != ty || nx.GetIndex() != (tm-1)/3+1 {
			w.Viol(fmt.Sprintf("C15:SolarSeason.Next(%d):%04d-%02d", n, y, m), fmt.Sprintf("= %d.%d", nx.GetYear(), nx.GetIndex()), d.Ymd)
		}
		if bk := nx.Next(-n); bk.GetYear() != y || bk.GetIndex() != ss.GetIndex() {
			w.Viol(fmt.Sprintf("C15:SolarSeason.Next(%d)back:%04d-%02d", n, y, m), "n seasons forward then back is not the identity", d.Ymd)
		}
		ty, tm, _ = r1AddMonths(y, m, 1, 6*n)
		nh := hy.Next(n)
		if nh.GetYear() != ty || nh.GetIndex() != (tm-1)/6+1 {
			w.Viol(fmt.Sprintf("C15:SolarHalfYear.Next(%d):%04d-%02d", n, y, m), fmt.Sprintf("= %d.%d", nh.GetYear(), nh.GetIndex()), d.Ymd)
		}
		if bk := nh.Next(-n); bk.GetYear() != y || bk.GetIndex() != hy.GetIndex() {
			w.Viol(fmt.Sprintf("C15:SolarHalfYear.Next(%d)back:%04d-%02d", n, y, m), "n half-years forward then back is not the identity", d.Ymd)
		}
	}
	if m == 1 {
		sy := calendar.NewSolarYearFromYear(y)
		if !monthsAre(sy.GetMonths(), y, 1, 12) || sy.Next(3).GetYear() != y+3 || sy.Next(3).Next(-3).GetYear() != y {
			w.Viol(fmt.Sprintf("C15:SolarYear:%04d", y), "year months/next wrong", d.Ymd)
		}
		if y%100 == 24 {
			w.Sample(map[string]interface{}{"month": fmt.Sprintf("%04d-%02d", y, m), "weeks_by_start": []int{weeksOfMonthRef(y, m, 0), weeksOfMonthRef(y, m, 1), weeksOfMonthRef(y, m, 6)}})
		}
	}
}

func monthsAre(l *list.List, y, m0, n int) bool {
	if l.Len() != n {
		return false
	}
	i := 0
	for e := l.Front(); e != nil; e = e.Next() {
		sm := e.Value.(*calendar.SolarMonth)
		if sm.GetYear() != y || sm.GetMonth() != m0+i {
			return false
		}
		i++
	}
	return true
}
