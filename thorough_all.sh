#!/bin/bash
# Runs every thorough check sequentially from a private copy of the binary, output under /tmp/bg (not evidence).
mkdir -p ${TA_DIR:-/tmp/bg/all} && cp /verif/.build/lunarmc /verif/.build/lunarmc-race ${TA_DIR:-/tmp/bg/all}/ 2>/dev/null; cp /verif/KNOWN_FINDINGS.txt ${TA_DIR:-/tmp/bg/all}/; cp /verif/.build/icu_months.txt ${TA_DIR:-/tmp/bg/all}/ 2>/dev/null
cd ${TA_DIR:-/tmp/bg/all}
for c in ${@:-C08 C09 C10 C11 C18 C19 C01 C05 C06 C07 C13 C15 C17 C12 C14 C16 C02 C03 C04 C20}; do
  echo "=== $c $(date +%T)"; VERIF_DIR=${TA_DIR:-/tmp/bg/all} timeout 7200 ./lunarmc check $c thorough 2>&1 | grep -E "^(VIOLATION|KNOWN|ERROR|$c tier)|^  fp=" | cut -c1-300 | head -40
done
echo "=== done $(date +%T)"
