#!/bin/bash
# Regression over all kept seeded changes: each must still be detected by the quick check of the property it breaks
# (or of the check named in DETECT_BY below when the seed's own label differs from the property whose check catches it).
declare -A BY=( [C01-newlunar-peeks-cached-table]=C09 [C07-newlunar-searches-cached-table]=C09 [C03-table-tail-from-cached-next-year]=C09 [C09-findforward-memo-not-cleared-on-remove]=C14 [C16-lunartime-star-exact-day-branch]=C11 [C19-lunar-string-cache-leap-key]=C09 )
cd /verif
for d in seeded/*/; do id=$(basename $d); p=${BY[$id]:-}; nice -n 5 ./seedrun.sh $id $p 2>&1 | grep "^SEEDRUN"; done
