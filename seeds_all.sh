#!/bin/bash
# Regression over all kept seeded changes: each must still be detected by the quick check of the property it breaks
# (or of the check named in DETECT_BY below when the seed's own label differs from the property whose check catches it).
declare -A BY=( [C01-newlunar-peeks-cached-table]=C09 [C07-newlunar-searches-cached-table]=C09 [C03-table-tail-from-cached-next-year]=C09 [C09-findforward-memo-not-cleared-on-remove]=C14 [C16-lunartime-star-exact-day-branch]=C11 [C19-lunar-string-cache-leap-key]=C09 [C01-year-ring-4096-stale-index]=C09 [C02-year-ring-4096-stale-index]=C09 [C03-year-ring-64-hands-over-term-slice]=C09 [C05-year-lru-512-stale-key]=C09 [C06-year-fifo-16384-recycled-month-list]=C09 [C08-year-ring-8192-stale-index]=C09 [C11-year-cache-512-recycles-held-object]=C09 [C17-zhaisix-month-length-ring-4096]=C09 [C16-term-table-shared-by-year-mod-128]=C09 [C15-weekindex-cache-tag-uint16]=C09 [C20-festival-index-sized-by-first-caller]=C09 [C18-dayyiji-memo-key-collides-with-junk-month]=C09 [C07-getmonthsinyear-filters-cached-table-in-place]=C09 [C05-epoch-time-treated-as-unset]=C07 [C11-new-accessor-returns-civil-years-object]=C08 [C01-nextday-through-local-time]=C04 [C13-shujiu-objects-shared-between-days]=C09 [C01-newlunar-tolerates-missing-leap-month]=C07 [C15-weekfromdate-strips-clock-through-local-midnight]=C07 [C06-year-returned-from-cache-after-unlock]=C09 )
# optional argument k/n: run only every n-th seed starting with the k-th (parallel streams)
K=${1:-0/1}; k=${K%/*}; n=${K#*/}; i=0
cd /verif
# optional second argument: property prefixes in the order to run them, e.g. "C14 C11 C09" (default: all, alphabetical)
LIST=""; if [ -n "${2:-}" ]; then for pfx in $2; do LIST="$LIST $(ls -d seeded/$pfx-*/)"; done; else LIST=$(ls -d seeded/*/); fi
for d in $LIST; do i=$((i+1)); [ $(( (i-1) % n )) -eq $k ] || continue; id=$(basename $d); p=${BY[$id]:-}; nice -n 5 ./seedrun.sh $id $p 2>&1 | grep "^SEEDRUN"; done
